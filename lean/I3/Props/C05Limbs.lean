/-
  I3.Props.C05Limbs — C05 (BN254 scalar-field arithmetic), portable Go kernels of package `ff`.

  Every theorem is about the definitions REGENERATED from /repo/ff/element.go, /repo/ff/arith.go by the
  limb translator (I3.Gen.FFLimbs, namespace `I3.Gen.FF`), statement by statement, with Go's `uint64`
  primitives given the semantics of I3.Exec.Word.  An element is four words `x0 … x3 < W = 2^64`,
  value `val4 x0 x1 x2 x3`, canonical when `< Q`; `R = 2^256` is the Montgomery radix and
  `toF v = v · R⁻¹ : ZMod Q` the represented field element (`Q = I3.q`, prime by I3.Spec.Primes).

  All theorems quantify over ALL canonical operands (no sampling) and over arbitrary initial contents
  `z0 … z3` of the destination.  Aliasing: each `_zx/_zy/_xy/_zxy` variant (destination sharing its cells
  with an operand) is shown EQUAL to the base kernel on the shared cells, and the correctness
  statements are transferred.  Helper lemmas: I3.Lemmas.Limbs, I3.Lemmas.LimbsField, tactic
  I3.Lemmas.LimbTac.
-/
import I3.Lemmas.LimbsField

namespace I3.Props.C05

open I3.Word I3.Gen.FF I3.Limbs

/-! ## 1. kernels on canonical limbs -/

/-- `_addGeneric`: canonical representative of `x + y`. -/
theorem add_ok (z0 z1 z2 z3 x0 x1 x2 x3 y0 y1 y2 y3 : Nat)
    (hx0 : x0 < W) (hx1 : x1 < W) (hx2 : x2 < W) (hx3 : x3 < W)
    (hy0 : y0 < W) (hy1 : y1 < W) (hy2 : y2 < W) (hy3 : y3 < W)
    (hx : val4 x0 x1 x2 x3 < Q) (hy : val4 y0 y1 y2 y3 < Q) :
    ∃ r0 r1 r2 r3, addGeneric z0 z1 z2 z3 x0 x1 x2 x3 y0 y1 y2 y3 = (r0, r1, r2, r3) ∧
      r0 < W ∧ r1 < W ∧ r2 < W ∧ r3 < W ∧
      val4 r0 r1 r2 r3 = (val4 x0 x1 x2 x3 + val4 y0 y1 y2 y3) % Q :=
  I3.Limbs.add_ok z0 z1 z2 z3 x0 x1 x2 x3 y0 y1 y2 y3 hx0 hx1 hx2 hx3 hy0 hy1 hy2 hy3 hx hy

/-- `_doubleGeneric`: canonical representative of `2x`. -/
theorem double_ok (z0 z1 z2 z3 x0 x1 x2 x3 : Nat)
    (hx0 : x0 < W) (hx1 : x1 < W) (hx2 : x2 < W) (hx3 : x3 < W) (hx : val4 x0 x1 x2 x3 < Q) :
    ∃ r0 r1 r2 r3, doubleGeneric z0 z1 z2 z3 x0 x1 x2 x3 = (r0, r1, r2, r3) ∧
      r0 < W ∧ r1 < W ∧ r2 < W ∧ r3 < W ∧
      val4 r0 r1 r2 r3 = (2 * val4 x0 x1 x2 x3) % Q :=
  I3.Limbs.double_ok z0 z1 z2 z3 x0 x1 x2 x3 hx0 hx1 hx2 hx3 hx

/-- `_subGeneric`: canonical representative of `x − y`. -/
theorem sub_ok (z0 z1 z2 z3 x0 x1 x2 x3 y0 y1 y2 y3 : Nat)
    (hx0 : x0 < W) (hx1 : x1 < W) (hx2 : x2 < W) (hx3 : x3 < W)
    (hy0 : y0 < W) (hy1 : y1 < W) (hy2 : y2 < W) (hy3 : y3 < W)
    (hx : val4 x0 x1 x2 x3 < Q) (hy : val4 y0 y1 y2 y3 < Q) :
    ∃ r0 r1 r2 r3, subGeneric z0 z1 z2 z3 x0 x1 x2 x3 y0 y1 y2 y3 = (r0, r1, r2, r3) ∧
      r0 < W ∧ r1 < W ∧ r2 < W ∧ r3 < W ∧
      val4 r0 r1 r2 r3 = (val4 x0 x1 x2 x3 + (Q - val4 y0 y1 y2 y3)) % Q :=
  I3.Limbs.sub_ok z0 z1 z2 z3 x0 x1 x2 x3 y0 y1 y2 y3 hx0 hx1 hx2 hx3 hy0 hy1 hy2 hy3 hx hy

/-- `_negGeneric`: canonical representative of `−x` (in particular `−0 = 0`, not `q`). -/
theorem neg_ok (z0 z1 z2 z3 x0 x1 x2 x3 : Nat)
    (hx0 : x0 < W) (hx1 : x1 < W) (hx2 : x2 < W) (hx3 : x3 < W) (hx : val4 x0 x1 x2 x3 < Q) :
    ∃ r0 r1 r2 r3, negGeneric z0 z1 z2 z3 x0 x1 x2 x3 = (r0, r1, r2, r3) ∧
      r0 < W ∧ r1 < W ∧ r2 < W ∧ r3 < W ∧
      val4 r0 r1 r2 r3 = (Q - val4 x0 x1 x2 x3) % Q :=
  I3.Limbs.neg_ok z0 z1 z2 z3 x0 x1 x2 x3 hx0 hx1 hx2 hx3 hx

/-- `_reduceGeneric`: one conditional subtraction canonicalises everything below `2q`. -/
theorem reduce_ok (z0 z1 z2 z3 : Nat)
    (h0 : z0 < W) (h1 : z1 < W) (h2 : z2 < W) (h3 : z3 < W) (h : val4 z0 z1 z2 z3 < 2 * Q) :
    ∃ r0 r1 r2 r3, reduceGeneric z0 z1 z2 z3 = (r0, r1, r2, r3) ∧
      r0 < W ∧ r1 < W ∧ r2 < W ∧ r3 < W ∧ val4 r0 r1 r2 r3 = val4 z0 z1 z2 z3 % Q :=
  I3.Limbs.reduce_ok z0 z1 z2 z3 h0 h1 h2 h3 h

/-- `Halve`: the canonical `r` with `2r = z`. -/
theorem halve_ok (z0 z1 z2 z3 : Nat)
    (hz0 : z0 < W) (hz1 : z1 < W) (hz2 : z2 < W) (hz3 : z3 < W) (hz : val4 z0 z1 z2 z3 < Q) :
    ∃ r0 r1 r2 r3, Halve z0 z1 z2 z3 = (r0, r1, r2, r3) ∧
      r0 < W ∧ r1 < W ∧ r2 < W ∧ r3 < W ∧ val4 r0 r1 r2 r3 < Q ∧
      (2 * val4 r0 r1 r2 r3) % Q = val4 z0 z1 z2 z3 :=
  I3.Limbs.halve_ok z0 z1 z2 z3 hz0 hz1 hz2 hz3 hz

/-- `_mulGeneric` (CIOS Montgomery multiplication): canonical `r` with `r·R ≡ x·y (mod q)`. -/
theorem mul_ok (z0 z1 z2 z3 x0 x1 x2 x3 y0 y1 y2 y3 : Nat)
    (hx0 : x0 < W) (hx1 : x1 < W) (hx2 : x2 < W) (hx3 : x3 < W)
    (hy0 : y0 < W) (hy1 : y1 < W) (hy2 : y2 < W) (hy3 : y3 < W)
    (hx : val4 x0 x1 x2 x3 < Q) (hy : val4 y0 y1 y2 y3 < Q) :
    ∃ r0 r1 r2 r3, mulGeneric z0 z1 z2 z3 x0 x1 x2 x3 y0 y1 y2 y3 = (r0, r1, r2, r3) ∧
      r0 < W ∧ r1 < W ∧ r2 < W ∧ r3 < W ∧ val4 r0 r1 r2 r3 < Q ∧
      (val4 r0 r1 r2 r3 * R) % Q = (val4 x0 x1 x2 x3 * val4 y0 y1 y2 y3) % Q :=
  I3.Limbs.mul_ok z0 z1 z2 z3 x0 x1 x2 x3 y0 y1 y2 y3 hx0 hx1 hx2 hx3 hy0 hy1 hy2 hy3 hx hy

/-- the same with an ARBITRARY four-word first operand (only `y` canonical): the CIOS invariant
`t < 2q` does not need `x < q`. -/
theorem mul_ok_any_left (z0 z1 z2 z3 x0 x1 x2 x3 y0 y1 y2 y3 : Nat)
    (hx0 : x0 < W) (hx1 : x1 < W) (hx2 : x2 < W) (hx3 : x3 < W)
    (hy0 : y0 < W) (hy1 : y1 < W) (hy2 : y2 < W) (hy3 : y3 < W)
    (hy : val4 y0 y1 y2 y3 < Q) :
    ∃ r0 r1 r2 r3, mulGeneric z0 z1 z2 z3 x0 x1 x2 x3 y0 y1 y2 y3 = (r0, r1, r2, r3) ∧
      r0 < W ∧ r1 < W ∧ r2 < W ∧ r3 < W ∧ val4 r0 r1 r2 r3 < Q ∧
      (val4 r0 r1 r2 r3 * R) % Q = (val4 x0 x1 x2 x3 * val4 y0 y1 y2 y3) % Q :=
  I3.Limbs.mul_ok' z0 z1 z2 z3 x0 x1 x2 x3 y0 y1 y2 y3 hx0 hx1 hx2 hx3 hy0 hy1 hy2 hy3 hy

/-- `Square` = `_mulGeneric` with both operand pointers equal. -/
theorem square_ok (z0 z1 z2 z3 x0 x1 x2 x3 : Nat)
    (hx0 : x0 < W) (hx1 : x1 < W) (hx2 : x2 < W) (hx3 : x3 < W) (hx : val4 x0 x1 x2 x3 < Q) :
    ∃ r0 r1 r2 r3, mulGeneric_xy z0 z1 z2 z3 x0 x1 x2 x3 = (r0, r1, r2, r3) ∧
      r0 < W ∧ r1 < W ∧ r2 < W ∧ r3 < W ∧ val4 r0 r1 r2 r3 < Q ∧
      (val4 r0 r1 r2 r3 * R) % Q = (val4 x0 x1 x2 x3 * val4 x0 x1 x2 x3) % Q :=
  I3.Limbs.mul_ok z0 z1 z2 z3 x0 x1 x2 x3 x0 x1 x2 x3 hx0 hx1 hx2 hx3 hx0 hx1 hx2 hx3 hx hx

/-- `_fromMontGeneric`: canonical `r` with `r·R ≡ z (mod q)`, for ANY four words `z`. -/
theorem fromMont_ok (z0 z1 z2 z3 : Nat) (hz0 : z0 < W) (hz1 : z1 < W) (hz2 : z2 < W) (hz3 : z3 < W) :
    ∃ r0 r1 r2 r3, fromMontGeneric z0 z1 z2 z3 = (r0, r1, r2, r3) ∧
      r0 < W ∧ r1 < W ∧ r2 < W ∧ r3 < W ∧ val4 r0 r1 r2 r3 < Q ∧
      (val4 r0 r1 r2 r3 * R) % Q = val4 z0 z1 z2 z3 % Q :=
  I3.Limbs.fromMont_ok z0 z1 z2 z3 hz0 hz1 hz2 hz3

/-- the `rSquare` literal of element.go is `R² mod q`. -/
theorem rSquare_ok :
    val4 1997599621687373223 6052339484930628067 10108755138030829701 150537098327114917 = (R * R) % Q :=
  I3.Limbs.rSquare_val

/-- `SetUint64 v` (one Montgomery product with `rSquare`) is the Montgomery form `v·R mod q`. -/
theorem setUint64_ok (v : Nat) (hv : v < W) :
    ∃ r0 r1 r2 r3, setUint64 v = (r0, r1, r2, r3) ∧ r0 < W ∧ r1 < W ∧ r2 < W ∧ r3 < W ∧
      val4 r0 r1 r2 r3 = (v * R) % Q :=
  I3.Limbs.setUint64_ok v hv

/-- `mulByConstant` for EVERY word constant `c` (branches 0, 1, 2, 3, 5 and the generic Montgomery
product with `SetUint64 c`): the canonical representative of `c·z`. -/
theorem mulByConstant_ok (z0 z1 z2 z3 c : Nat)
    (hz0 : z0 < W) (hz1 : z1 < W) (hz2 : z2 < W) (hz3 : z3 < W) (hz : val4 z0 z1 z2 z3 < Q) (hc : c < W) :
    ∃ r0 r1 r2 r3, mulByConstant z0 z1 z2 z3 c = (r0, r1, r2, r3) ∧
      r0 < W ∧ r1 < W ∧ r2 < W ∧ r3 < W ∧ val4 r0 r1 r2 r3 = (c * val4 z0 z1 z2 z3) % Q :=
  I3.Limbs.mulByConstant_ok z0 z1 z2 z3 c hz0 hz1 hz2 hz3 hz hc

/-- `MulBy3`. -/
theorem mulBy3_ok (z0 z1 z2 z3 : Nat)
    (hz0 : z0 < W) (hz1 : z1 < W) (hz2 : z2 < W) (hz3 : z3 < W) (hz : val4 z0 z1 z2 z3 < Q) :
    ∃ r0 r1 r2 r3, mulByConstant z0 z1 z2 z3 3 = (r0, r1, r2, r3) ∧
      r0 < W ∧ r1 < W ∧ r2 < W ∧ r3 < W ∧ val4 r0 r1 r2 r3 = (3 * val4 z0 z1 z2 z3) % Q :=
  I3.Limbs.mulByConstant_ok z0 z1 z2 z3 3 hz0 hz1 hz2 hz3 hz (by decide)

/-- `MulBy5`. -/
theorem mulBy5_ok (z0 z1 z2 z3 : Nat)
    (hz0 : z0 < W) (hz1 : z1 < W) (hz2 : z2 < W) (hz3 : z3 < W) (hz : val4 z0 z1 z2 z3 < Q) :
    ∃ r0 r1 r2 r3, mulByConstant z0 z1 z2 z3 5 = (r0, r1, r2, r3) ∧
      r0 < W ∧ r1 < W ∧ r2 < W ∧ r3 < W ∧ val4 r0 r1 r2 r3 = (5 * val4 z0 z1 z2 z3) % Q :=
  I3.Limbs.mulByConstant_ok z0 z1 z2 z3 5 hz0 hz1 hz2 hz3 hz (by decide)

/-- `MulBy13` (generic branch of `mulByConstant`). -/
theorem mulBy13_ok (z0 z1 z2 z3 : Nat)
    (hz0 : z0 < W) (hz1 : z1 < W) (hz2 : z2 < W) (hz3 : z3 < W) (hz : val4 z0 z1 z2 z3 < Q) :
    ∃ r0 r1 r2 r3, mulByConstant z0 z1 z2 z3 13 = (r0, r1, r2, r3) ∧
      r0 < W ∧ r1 < W ∧ r2 < W ∧ r3 < W ∧ val4 r0 r1 r2 r3 = (13 * val4 z0 z1 z2 z3) % Q :=
  I3.Limbs.mulByConstant_ok z0 z1 z2 z3 13 hz0 hz1 hz2 hz3 hz (by decide)

/-- `_butterflyGeneric`: `(a, b) ↦ (a + b, a − b)`. -/
theorem butterfly_ok (a0 a1 a2 a3 b0 b1 b2 b3 : Nat)
    (ha0 : a0 < W) (ha1 : a1 < W) (ha2 : a2 < W) (ha3 : a3 < W)
    (hb0 : b0 < W) (hb1 : b1 < W) (hb2 : b2 < W) (hb3 : b3 < W)
    (ha : val4 a0 a1 a2 a3 < Q) (hb : val4 b0 b1 b2 b3 < Q) :
    ∃ r0 r1 r2 r3 s0 s1 s2 s3,
      butterflyGeneric a0 a1 a2 a3 b0 b1 b2 b3 = (r0, r1, r2, r3, s0, s1, s2, s3) ∧
      r0 < W ∧ r1 < W ∧ r2 < W ∧ r3 < W ∧ s0 < W ∧ s1 < W ∧ s2 < W ∧ s3 < W ∧
      val4 r0 r1 r2 r3 = (val4 a0 a1 a2 a3 + val4 b0 b1 b2 b3) % Q ∧
      val4 s0 s1 s2 s3 = (val4 a0 a1 a2 a3 + (Q - val4 b0 b1 b2 b3)) % Q :=
  I3.Limbs.butterfly_ok a0 a1 a2 a3 b0 b1 b2 b3 ha0 ha1 ha2 ha3 hb0 hb1 hb2 hb3 ha hb

/-! ## 2. aliasing: a destination that shares its cells with an operand

`f_zx z y` is the translation of `f(z, z, y)` (`z` and `x` the same object), `f_zy z x` of `f(z, x, z)`,
`f_xy z x` of `f(z, x, x)` and `f_zxy z` of `f(z, z, z)`.  Each equals the base kernel applied to the
shared cells, whatever the (irrelevant) initial destination `a` of the base kernel is: the generated
code reads every operand limb before it overwrites it. -/

theorem add_zx (a0 a1 a2 a3 z0 z1 z2 z3 y0 y1 y2 y3 : Nat) :
    addGeneric_zx z0 z1 z2 z3 y0 y1 y2 y3 = addGeneric a0 a1 a2 a3 z0 z1 z2 z3 y0 y1 y2 y3 :=
  I3.Limbs.add_zx a0 a1 a2 a3 z0 z1 z2 z3 y0 y1 y2 y3
theorem add_zy (a0 a1 a2 a3 z0 z1 z2 z3 x0 x1 x2 x3 : Nat) :
    addGeneric_zy z0 z1 z2 z3 x0 x1 x2 x3 = addGeneric a0 a1 a2 a3 x0 x1 x2 x3 z0 z1 z2 z3 :=
  I3.Limbs.add_zy a0 a1 a2 a3 z0 z1 z2 z3 x0 x1 x2 x3
theorem add_xy (z0 z1 z2 z3 x0 x1 x2 x3 : Nat) :
    addGeneric_xy z0 z1 z2 z3 x0 x1 x2 x3 = addGeneric z0 z1 z2 z3 x0 x1 x2 x3 x0 x1 x2 x3 :=
  I3.Limbs.add_xy z0 z1 z2 z3 x0 x1 x2 x3
theorem add_zxy (a0 a1 a2 a3 z0 z1 z2 z3 : Nat) :
    addGeneric_zxy z0 z1 z2 z3 = addGeneric a0 a1 a2 a3 z0 z1 z2 z3 z0 z1 z2 z3 :=
  I3.Limbs.add_zxy a0 a1 a2 a3 z0 z1 z2 z3
theorem double_zx (a0 a1 a2 a3 z0 z1 z2 z3 : Nat) :
    doubleGeneric_zx z0 z1 z2 z3 = doubleGeneric a0 a1 a2 a3 z0 z1 z2 z3 :=
  I3.Limbs.double_zx a0 a1 a2 a3 z0 z1 z2 z3
theorem sub_zx (a0 a1 a2 a3 z0 z1 z2 z3 y0 y1 y2 y3 : Nat) :
    subGeneric_zx z0 z1 z2 z3 y0 y1 y2 y3 = subGeneric a0 a1 a2 a3 z0 z1 z2 z3 y0 y1 y2 y3 :=
  I3.Limbs.sub_zx a0 a1 a2 a3 z0 z1 z2 z3 y0 y1 y2 y3
theorem sub_zy (a0 a1 a2 a3 z0 z1 z2 z3 x0 x1 x2 x3 : Nat) :
    subGeneric_zy z0 z1 z2 z3 x0 x1 x2 x3 = subGeneric a0 a1 a2 a3 x0 x1 x2 x3 z0 z1 z2 z3 :=
  I3.Limbs.sub_zy a0 a1 a2 a3 z0 z1 z2 z3 x0 x1 x2 x3
theorem sub_xy (z0 z1 z2 z3 x0 x1 x2 x3 : Nat) :
    subGeneric_xy z0 z1 z2 z3 x0 x1 x2 x3 = subGeneric z0 z1 z2 z3 x0 x1 x2 x3 x0 x1 x2 x3 :=
  I3.Limbs.sub_xy z0 z1 z2 z3 x0 x1 x2 x3
theorem sub_zxy (a0 a1 a2 a3 z0 z1 z2 z3 : Nat) :
    subGeneric_zxy z0 z1 z2 z3 = subGeneric a0 a1 a2 a3 z0 z1 z2 z3 z0 z1 z2 z3 :=
  I3.Limbs.sub_zxy a0 a1 a2 a3 z0 z1 z2 z3
theorem neg_zx (a0 a1 a2 a3 z0 z1 z2 z3 : Nat) :
    negGeneric_zx z0 z1 z2 z3 = negGeneric a0 a1 a2 a3 z0 z1 z2 z3 :=
  I3.Limbs.neg_zx a0 a1 a2 a3 z0 z1 z2 z3
theorem mul_zx (a0 a1 a2 a3 z0 z1 z2 z3 y0 y1 y2 y3 : Nat) :
    mulGeneric_zx z0 z1 z2 z3 y0 y1 y2 y3 = mulGeneric a0 a1 a2 a3 z0 z1 z2 z3 y0 y1 y2 y3 :=
  I3.Limbs.mul_zx a0 a1 a2 a3 z0 z1 z2 z3 y0 y1 y2 y3
theorem mul_zy (a0 a1 a2 a3 z0 z1 z2 z3 x0 x1 x2 x3 : Nat) :
    mulGeneric_zy z0 z1 z2 z3 x0 x1 x2 x3 = mulGeneric a0 a1 a2 a3 x0 x1 x2 x3 z0 z1 z2 z3 :=
  I3.Limbs.mul_zy a0 a1 a2 a3 z0 z1 z2 z3 x0 x1 x2 x3
theorem mul_xy (z0 z1 z2 z3 x0 x1 x2 x3 : Nat) :
    mulGeneric_xy z0 z1 z2 z3 x0 x1 x2 x3 = mulGeneric z0 z1 z2 z3 x0 x1 x2 x3 x0 x1 x2 x3 :=
  I3.Limbs.mul_xy z0 z1 z2 z3 x0 x1 x2 x3
theorem mul_zxy (a0 a1 a2 a3 z0 z1 z2 z3 : Nat) :
    mulGeneric_zxy z0 z1 z2 z3 = mulGeneric a0 a1 a2 a3 z0 z1 z2 z3 z0 z1 z2 z3 :=
  I3.Limbs.mul_zxy a0 a1 a2 a3 z0 z1 z2 z3

/-! ### the correctness statements transferred to the aliased calls -/

/-- `z.Add(z, y)`. -/
theorem add_zx_ok (z0 z1 z2 z3 y0 y1 y2 y3 : Nat)
    (hz0 : z0 < W) (hz1 : z1 < W) (hz2 : z2 < W) (hz3 : z3 < W)
    (hy0 : y0 < W) (hy1 : y1 < W) (hy2 : y2 < W) (hy3 : y3 < W)
    (hz : val4 z0 z1 z2 z3 < Q) (hy : val4 y0 y1 y2 y3 < Q) :
    ∃ r0 r1 r2 r3, addGeneric_zx z0 z1 z2 z3 y0 y1 y2 y3 = (r0, r1, r2, r3) ∧
      r0 < W ∧ r1 < W ∧ r2 < W ∧ r3 < W ∧
      val4 r0 r1 r2 r3 = (val4 z0 z1 z2 z3 + val4 y0 y1 y2 y3) % Q := by
  rw [add_zx 0 0 0 0]; exact add_ok _ _ _ _ _ _ _ _ _ _ _ _ hz0 hz1 hz2 hz3 hy0 hy1 hy2 hy3 hz hy

/-- `z.Add(x, z)`. -/
theorem add_zy_ok (z0 z1 z2 z3 x0 x1 x2 x3 : Nat)
    (hz0 : z0 < W) (hz1 : z1 < W) (hz2 : z2 < W) (hz3 : z3 < W)
    (hx0 : x0 < W) (hx1 : x1 < W) (hx2 : x2 < W) (hx3 : x3 < W)
    (hz : val4 z0 z1 z2 z3 < Q) (hx : val4 x0 x1 x2 x3 < Q) :
    ∃ r0 r1 r2 r3, addGeneric_zy z0 z1 z2 z3 x0 x1 x2 x3 = (r0, r1, r2, r3) ∧
      r0 < W ∧ r1 < W ∧ r2 < W ∧ r3 < W ∧
      val4 r0 r1 r2 r3 = (val4 x0 x1 x2 x3 + val4 z0 z1 z2 z3) % Q := by
  rw [add_zy 0 0 0 0]; exact add_ok _ _ _ _ _ _ _ _ _ _ _ _ hx0 hx1 hx2 hx3 hz0 hz1 hz2 hz3 hx hz

/-- `z.Add(x, x)`. -/
theorem add_xy_ok (z0 z1 z2 z3 x0 x1 x2 x3 : Nat)
    (hx0 : x0 < W) (hx1 : x1 < W) (hx2 : x2 < W) (hx3 : x3 < W) (hx : val4 x0 x1 x2 x3 < Q) :
    ∃ r0 r1 r2 r3, addGeneric_xy z0 z1 z2 z3 x0 x1 x2 x3 = (r0, r1, r2, r3) ∧
      r0 < W ∧ r1 < W ∧ r2 < W ∧ r3 < W ∧
      val4 r0 r1 r2 r3 = (val4 x0 x1 x2 x3 + val4 x0 x1 x2 x3) % Q := by
  rw [add_xy]; exact add_ok _ _ _ _ _ _ _ _ _ _ _ _ hx0 hx1 hx2 hx3 hx0 hx1 hx2 hx3 hx hx

/-- `z.Add(z, z)`. -/
theorem add_zxy_ok (z0 z1 z2 z3 : Nat)
    (hz0 : z0 < W) (hz1 : z1 < W) (hz2 : z2 < W) (hz3 : z3 < W) (hz : val4 z0 z1 z2 z3 < Q) :
    ∃ r0 r1 r2 r3, addGeneric_zxy z0 z1 z2 z3 = (r0, r1, r2, r3) ∧
      r0 < W ∧ r1 < W ∧ r2 < W ∧ r3 < W ∧
      val4 r0 r1 r2 r3 = (val4 z0 z1 z2 z3 + val4 z0 z1 z2 z3) % Q := by
  rw [add_zxy 0 0 0 0]; exact add_ok _ _ _ _ _ _ _ _ _ _ _ _ hz0 hz1 hz2 hz3 hz0 hz1 hz2 hz3 hz hz

/-- `z.Double(z)`. -/
theorem double_zx_ok (z0 z1 z2 z3 : Nat)
    (hz0 : z0 < W) (hz1 : z1 < W) (hz2 : z2 < W) (hz3 : z3 < W) (hz : val4 z0 z1 z2 z3 < Q) :
    ∃ r0 r1 r2 r3, doubleGeneric_zx z0 z1 z2 z3 = (r0, r1, r2, r3) ∧
      r0 < W ∧ r1 < W ∧ r2 < W ∧ r3 < W ∧
      val4 r0 r1 r2 r3 = (2 * val4 z0 z1 z2 z3) % Q := by
  rw [double_zx 0 0 0 0]; exact double_ok _ _ _ _ _ _ _ _ hz0 hz1 hz2 hz3 hz

/-- `z.Sub(z, y)`. -/
theorem sub_zx_ok (z0 z1 z2 z3 y0 y1 y2 y3 : Nat)
    (hz0 : z0 < W) (hz1 : z1 < W) (hz2 : z2 < W) (hz3 : z3 < W)
    (hy0 : y0 < W) (hy1 : y1 < W) (hy2 : y2 < W) (hy3 : y3 < W)
    (hz : val4 z0 z1 z2 z3 < Q) (hy : val4 y0 y1 y2 y3 < Q) :
    ∃ r0 r1 r2 r3, subGeneric_zx z0 z1 z2 z3 y0 y1 y2 y3 = (r0, r1, r2, r3) ∧
      r0 < W ∧ r1 < W ∧ r2 < W ∧ r3 < W ∧
      val4 r0 r1 r2 r3 = (val4 z0 z1 z2 z3 + (Q - val4 y0 y1 y2 y3)) % Q := by
  rw [sub_zx 0 0 0 0]; exact sub_ok _ _ _ _ _ _ _ _ _ _ _ _ hz0 hz1 hz2 hz3 hy0 hy1 hy2 hy3 hz hy

/-- `z.Sub(x, z)`. -/
theorem sub_zy_ok (z0 z1 z2 z3 x0 x1 x2 x3 : Nat)
    (hz0 : z0 < W) (hz1 : z1 < W) (hz2 : z2 < W) (hz3 : z3 < W)
    (hx0 : x0 < W) (hx1 : x1 < W) (hx2 : x2 < W) (hx3 : x3 < W)
    (hz : val4 z0 z1 z2 z3 < Q) (hx : val4 x0 x1 x2 x3 < Q) :
    ∃ r0 r1 r2 r3, subGeneric_zy z0 z1 z2 z3 x0 x1 x2 x3 = (r0, r1, r2, r3) ∧
      r0 < W ∧ r1 < W ∧ r2 < W ∧ r3 < W ∧
      val4 r0 r1 r2 r3 = (val4 x0 x1 x2 x3 + (Q - val4 z0 z1 z2 z3)) % Q := by
  rw [sub_zy 0 0 0 0]; exact sub_ok _ _ _ _ _ _ _ _ _ _ _ _ hx0 hx1 hx2 hx3 hz0 hz1 hz2 hz3 hx hz

/-- `z.Sub(x, x)`. -/
theorem sub_xy_ok (z0 z1 z2 z3 x0 x1 x2 x3 : Nat)
    (hx0 : x0 < W) (hx1 : x1 < W) (hx2 : x2 < W) (hx3 : x3 < W) (hx : val4 x0 x1 x2 x3 < Q) :
    ∃ r0 r1 r2 r3, subGeneric_xy z0 z1 z2 z3 x0 x1 x2 x3 = (r0, r1, r2, r3) ∧
      r0 < W ∧ r1 < W ∧ r2 < W ∧ r3 < W ∧
      val4 r0 r1 r2 r3 = (val4 x0 x1 x2 x3 + (Q - val4 x0 x1 x2 x3)) % Q := by
  rw [sub_xy]; exact sub_ok _ _ _ _ _ _ _ _ _ _ _ _ hx0 hx1 hx2 hx3 hx0 hx1 hx2 hx3 hx hx

/-- `z.Sub(z, z)`. -/
theorem sub_zxy_ok (z0 z1 z2 z3 : Nat)
    (hz0 : z0 < W) (hz1 : z1 < W) (hz2 : z2 < W) (hz3 : z3 < W) (hz : val4 z0 z1 z2 z3 < Q) :
    ∃ r0 r1 r2 r3, subGeneric_zxy z0 z1 z2 z3 = (r0, r1, r2, r3) ∧
      r0 < W ∧ r1 < W ∧ r2 < W ∧ r3 < W ∧
      val4 r0 r1 r2 r3 = (val4 z0 z1 z2 z3 + (Q - val4 z0 z1 z2 z3)) % Q := by
  rw [sub_zxy 0 0 0 0]; exact sub_ok _ _ _ _ _ _ _ _ _ _ _ _ hz0 hz1 hz2 hz3 hz0 hz1 hz2 hz3 hz hz

/-- `z.Neg(z)`. -/
theorem neg_zx_ok (z0 z1 z2 z3 : Nat)
    (hz0 : z0 < W) (hz1 : z1 < W) (hz2 : z2 < W) (hz3 : z3 < W) (hz : val4 z0 z1 z2 z3 < Q) :
    ∃ r0 r1 r2 r3, negGeneric_zx z0 z1 z2 z3 = (r0, r1, r2, r3) ∧
      r0 < W ∧ r1 < W ∧ r2 < W ∧ r3 < W ∧
      val4 r0 r1 r2 r3 = (Q - val4 z0 z1 z2 z3) % Q := by
  rw [neg_zx 0 0 0 0]; exact neg_ok _ _ _ _ _ _ _ _ hz0 hz1 hz2 hz3 hz

/-- `z.Mul(z, y)`. -/
theorem mul_zx_ok (z0 z1 z2 z3 y0 y1 y2 y3 : Nat)
    (hz0 : z0 < W) (hz1 : z1 < W) (hz2 : z2 < W) (hz3 : z3 < W)
    (hy0 : y0 < W) (hy1 : y1 < W) (hy2 : y2 < W) (hy3 : y3 < W)
    (hz : val4 z0 z1 z2 z3 < Q) (hy : val4 y0 y1 y2 y3 < Q) :
    ∃ r0 r1 r2 r3, mulGeneric_zx z0 z1 z2 z3 y0 y1 y2 y3 = (r0, r1, r2, r3) ∧
      r0 < W ∧ r1 < W ∧ r2 < W ∧ r3 < W ∧ val4 r0 r1 r2 r3 < Q ∧
      (val4 r0 r1 r2 r3 * R) % Q = (val4 z0 z1 z2 z3 * val4 y0 y1 y2 y3) % Q := by
  rw [mul_zx 0 0 0 0]; exact mul_ok _ _ _ _ _ _ _ _ _ _ _ _ hz0 hz1 hz2 hz3 hy0 hy1 hy2 hy3 hz hy

/-- `z.Mul(x, z)`. -/
theorem mul_zy_ok (z0 z1 z2 z3 x0 x1 x2 x3 : Nat)
    (hz0 : z0 < W) (hz1 : z1 < W) (hz2 : z2 < W) (hz3 : z3 < W)
    (hx0 : x0 < W) (hx1 : x1 < W) (hx2 : x2 < W) (hx3 : x3 < W)
    (hz : val4 z0 z1 z2 z3 < Q) (hx : val4 x0 x1 x2 x3 < Q) :
    ∃ r0 r1 r2 r3, mulGeneric_zy z0 z1 z2 z3 x0 x1 x2 x3 = (r0, r1, r2, r3) ∧
      r0 < W ∧ r1 < W ∧ r2 < W ∧ r3 < W ∧ val4 r0 r1 r2 r3 < Q ∧
      (val4 r0 r1 r2 r3 * R) % Q = (val4 x0 x1 x2 x3 * val4 z0 z1 z2 z3) % Q := by
  rw [mul_zy 0 0 0 0]; exact mul_ok _ _ _ _ _ _ _ _ _ _ _ _ hx0 hx1 hx2 hx3 hz0 hz1 hz2 hz3 hx hz

/-- `z.Square(z)` / `z.Mul(z, z)`. -/
theorem mul_zxy_ok (z0 z1 z2 z3 : Nat)
    (hz0 : z0 < W) (hz1 : z1 < W) (hz2 : z2 < W) (hz3 : z3 < W) (hz : val4 z0 z1 z2 z3 < Q) :
    ∃ r0 r1 r2 r3, mulGeneric_zxy z0 z1 z2 z3 = (r0, r1, r2, r3) ∧
      r0 < W ∧ r1 < W ∧ r2 < W ∧ r3 < W ∧ val4 r0 r1 r2 r3 < Q ∧
      (val4 r0 r1 r2 r3 * R) % Q = (val4 z0 z1 z2 z3 * val4 z0 z1 z2 z3) % Q := by
  rw [mul_zxy 0 0 0 0]; exact mul_ok _ _ _ _ _ _ _ _ _ _ _ _ hz0 hz1 hz2 hz3 hz0 hz1 hz2 hz3 hz hz

/-! ## 3. the same statements in the field `ZMod q`

`toF v = v · R⁻¹` is the field element a Montgomery residue represents; `Q = I3.q` is prime
(I3.Spec.Primes). -/

theorem modulus_eq : Q = I3.q := I3.Limbs.Q_eq
theorem modulus_prime : Nat.Prime Q := I3.Limbs.Q_eq ▸ I3.q_prime

theorem add_field (z0 z1 z2 z3 x0 x1 x2 x3 y0 y1 y2 y3 : Nat)
    (hx0 : x0 < W) (hx1 : x1 < W) (hx2 : x2 < W) (hx3 : x3 < W)
    (hy0 : y0 < W) (hy1 : y1 < W) (hy2 : y2 < W) (hy3 : y3 < W)
    (hx : val4 x0 x1 x2 x3 < Q) (hy : val4 y0 y1 y2 y3 < Q) :
    ∃ r0 r1 r2 r3, addGeneric z0 z1 z2 z3 x0 x1 x2 x3 y0 y1 y2 y3 = (r0, r1, r2, r3) ∧
      r0 < W ∧ r1 < W ∧ r2 < W ∧ r3 < W ∧ val4 r0 r1 r2 r3 < Q ∧
      toF (val4 r0 r1 r2 r3) = toF (val4 x0 x1 x2 x3) + toF (val4 y0 y1 y2 y3) := by
  obtain ⟨r0, r1, r2, r3, e, g0, g1, g2, g3, h⟩ :=
    add_ok z0 z1 z2 z3 x0 x1 x2 x3 y0 y1 y2 y3 hx0 hx1 hx2 hx3 hy0 hy1 hy2 hy3 hx hy
  exact ⟨r0, r1, r2, r3, e, g0, g1, g2, g3, h ▸ Nat.mod_lt _ (by decide), toF_add _ _ _ h⟩

theorem sub_field (z0 z1 z2 z3 x0 x1 x2 x3 y0 y1 y2 y3 : Nat)
    (hx0 : x0 < W) (hx1 : x1 < W) (hx2 : x2 < W) (hx3 : x3 < W)
    (hy0 : y0 < W) (hy1 : y1 < W) (hy2 : y2 < W) (hy3 : y3 < W)
    (hx : val4 x0 x1 x2 x3 < Q) (hy : val4 y0 y1 y2 y3 < Q) :
    ∃ r0 r1 r2 r3, subGeneric z0 z1 z2 z3 x0 x1 x2 x3 y0 y1 y2 y3 = (r0, r1, r2, r3) ∧
      r0 < W ∧ r1 < W ∧ r2 < W ∧ r3 < W ∧ val4 r0 r1 r2 r3 < Q ∧
      toF (val4 r0 r1 r2 r3) = toF (val4 x0 x1 x2 x3) - toF (val4 y0 y1 y2 y3) := by
  obtain ⟨r0, r1, r2, r3, e, g0, g1, g2, g3, h⟩ :=
    sub_ok z0 z1 z2 z3 x0 x1 x2 x3 y0 y1 y2 y3 hx0 hx1 hx2 hx3 hy0 hy1 hy2 hy3 hx hy
  exact ⟨r0, r1, r2, r3, e, g0, g1, g2, g3, h ▸ Nat.mod_lt _ (by decide), toF_sub _ _ _ hy h⟩

theorem neg_field (z0 z1 z2 z3 x0 x1 x2 x3 : Nat)
    (hx0 : x0 < W) (hx1 : x1 < W) (hx2 : x2 < W) (hx3 : x3 < W) (hx : val4 x0 x1 x2 x3 < Q) :
    ∃ r0 r1 r2 r3, negGeneric z0 z1 z2 z3 x0 x1 x2 x3 = (r0, r1, r2, r3) ∧
      r0 < W ∧ r1 < W ∧ r2 < W ∧ r3 < W ∧ val4 r0 r1 r2 r3 < Q ∧
      toF (val4 r0 r1 r2 r3) = - toF (val4 x0 x1 x2 x3) := by
  obtain ⟨r0, r1, r2, r3, e, g0, g1, g2, g3, h⟩ := neg_ok z0 z1 z2 z3 x0 x1 x2 x3 hx0 hx1 hx2 hx3 hx
  exact ⟨r0, r1, r2, r3, e, g0, g1, g2, g3, h ▸ Nat.mod_lt _ (by decide), toF_neg _ _ hx h⟩

theorem double_field (z0 z1 z2 z3 x0 x1 x2 x3 : Nat)
    (hx0 : x0 < W) (hx1 : x1 < W) (hx2 : x2 < W) (hx3 : x3 < W) (hx : val4 x0 x1 x2 x3 < Q) :
    ∃ r0 r1 r2 r3, doubleGeneric z0 z1 z2 z3 x0 x1 x2 x3 = (r0, r1, r2, r3) ∧
      r0 < W ∧ r1 < W ∧ r2 < W ∧ r3 < W ∧ val4 r0 r1 r2 r3 < Q ∧
      toF (val4 r0 r1 r2 r3) = 2 * toF (val4 x0 x1 x2 x3) := by
  obtain ⟨r0, r1, r2, r3, e, g0, g1, g2, g3, h⟩ := double_ok z0 z1 z2 z3 x0 x1 x2 x3 hx0 hx1 hx2 hx3 hx
  exact ⟨r0, r1, r2, r3, e, g0, g1, g2, g3, h ▸ Nat.mod_lt _ (by decide), by
    rw [toF_smul _ _ _ h]; norm_num⟩

theorem halve_field (z0 z1 z2 z3 : Nat)
    (hz0 : z0 < W) (hz1 : z1 < W) (hz2 : z2 < W) (hz3 : z3 < W) (hz : val4 z0 z1 z2 z3 < Q) :
    ∃ r0 r1 r2 r3, Halve z0 z1 z2 z3 = (r0, r1, r2, r3) ∧
      r0 < W ∧ r1 < W ∧ r2 < W ∧ r3 < W ∧ val4 r0 r1 r2 r3 < Q ∧
      toF (val4 r0 r1 r2 r3) = toF (val4 z0 z1 z2 z3) / 2 := by
  obtain ⟨r0, r1, r2, r3, e, g0, g1, g2, g3, hlt, h⟩ := halve_ok z0 z1 z2 z3 hz0 hz1 hz2 hz3 hz
  exact ⟨r0, r1, r2, r3, e, g0, g1, g2, g3, hlt, toF_halve _ _ h⟩

theorem mul_field (z0 z1 z2 z3 x0 x1 x2 x3 y0 y1 y2 y3 : Nat)
    (hx0 : x0 < W) (hx1 : x1 < W) (hx2 : x2 < W) (hx3 : x3 < W)
    (hy0 : y0 < W) (hy1 : y1 < W) (hy2 : y2 < W) (hy3 : y3 < W)
    (hx : val4 x0 x1 x2 x3 < Q) (hy : val4 y0 y1 y2 y3 < Q) :
    ∃ r0 r1 r2 r3, mulGeneric z0 z1 z2 z3 x0 x1 x2 x3 y0 y1 y2 y3 = (r0, r1, r2, r3) ∧
      r0 < W ∧ r1 < W ∧ r2 < W ∧ r3 < W ∧ val4 r0 r1 r2 r3 < Q ∧
      toF (val4 r0 r1 r2 r3) = toF (val4 x0 x1 x2 x3) * toF (val4 y0 y1 y2 y3) := by
  obtain ⟨r0, r1, r2, r3, e, g0, g1, g2, g3, hlt, h⟩ :=
    mul_ok z0 z1 z2 z3 x0 x1 x2 x3 y0 y1 y2 y3 hx0 hx1 hx2 hx3 hy0 hy1 hy2 hy3 hx hy
  exact ⟨r0, r1, r2, r3, e, g0, g1, g2, g3, hlt, toF_mul _ _ _ h⟩

theorem square_field (z0 z1 z2 z3 x0 x1 x2 x3 : Nat)
    (hx0 : x0 < W) (hx1 : x1 < W) (hx2 : x2 < W) (hx3 : x3 < W) (hx : val4 x0 x1 x2 x3 < Q) :
    ∃ r0 r1 r2 r3, mulGeneric_xy z0 z1 z2 z3 x0 x1 x2 x3 = (r0, r1, r2, r3) ∧
      r0 < W ∧ r1 < W ∧ r2 < W ∧ r3 < W ∧ val4 r0 r1 r2 r3 < Q ∧
      toF (val4 r0 r1 r2 r3) = toF (val4 x0 x1 x2 x3) ^ 2 := by
  obtain ⟨r0, r1, r2, r3, e, g0, g1, g2, g3, hlt, h⟩ := square_ok z0 z1 z2 z3 x0 x1 x2 x3 hx0 hx1 hx2 hx3 hx
  exact ⟨r0, r1, r2, r3, e, g0, g1, g2, g3, hlt, by rw [toF_mul _ _ _ h, sq]⟩

/-- `fromMont` returns the canonical integer of the represented field element. -/
theorem fromMont_field (z0 z1 z2 z3 : Nat) (hz0 : z0 < W) (hz1 : z1 < W) (hz2 : z2 < W) (hz3 : z3 < W) :
    ∃ r0 r1 r2 r3, fromMontGeneric z0 z1 z2 z3 = (r0, r1, r2, r3) ∧
      r0 < W ∧ r1 < W ∧ r2 < W ∧ r3 < W ∧ val4 r0 r1 r2 r3 < Q ∧
      ((val4 r0 r1 r2 r3 : Nat) : ZMod Q) = toF (val4 z0 z1 z2 z3) := by
  obtain ⟨r0, r1, r2, r3, e, g0, g1, g2, g3, hlt, h⟩ := fromMont_ok z0 z1 z2 z3 hz0 hz1 hz2 hz3
  exact ⟨r0, r1, r2, r3, e, g0, g1, g2, g3, hlt, cast_fromMont _ _ h⟩

/-- `SetUint64 v` represents the field element `v`. -/
theorem setUint64_field (v : Nat) (hv : v < W) :
    ∃ r0 r1 r2 r3, setUint64 v = (r0, r1, r2, r3) ∧ r0 < W ∧ r1 < W ∧ r2 < W ∧ r3 < W ∧
      val4 r0 r1 r2 r3 < Q ∧ toF (val4 r0 r1 r2 r3) = (v : ZMod Q) := by
  obtain ⟨r0, r1, r2, r3, e, g0, g1, g2, g3, h⟩ := setUint64_ok v hv
  exact ⟨r0, r1, r2, r3, e, g0, g1, g2, g3, h ▸ Nat.mod_lt _ (by decide), toF_toMont _ _ h⟩

theorem mulByConstant_field (z0 z1 z2 z3 c : Nat)
    (hz0 : z0 < W) (hz1 : z1 < W) (hz2 : z2 < W) (hz3 : z3 < W) (hz : val4 z0 z1 z2 z3 < Q) (hc : c < W) :
    ∃ r0 r1 r2 r3, mulByConstant z0 z1 z2 z3 c = (r0, r1, r2, r3) ∧
      r0 < W ∧ r1 < W ∧ r2 < W ∧ r3 < W ∧ val4 r0 r1 r2 r3 < Q ∧
      toF (val4 r0 r1 r2 r3) = (c : ZMod Q) * toF (val4 z0 z1 z2 z3) := by
  obtain ⟨r0, r1, r2, r3, e, g0, g1, g2, g3, h⟩ := mulByConstant_ok z0 z1 z2 z3 c hz0 hz1 hz2 hz3 hz hc
  exact ⟨r0, r1, r2, r3, e, g0, g1, g2, g3, h ▸ Nat.mod_lt _ (by decide), toF_smul _ _ _ h⟩

theorem butterfly_field (a0 a1 a2 a3 b0 b1 b2 b3 : Nat)
    (ha0 : a0 < W) (ha1 : a1 < W) (ha2 : a2 < W) (ha3 : a3 < W)
    (hb0 : b0 < W) (hb1 : b1 < W) (hb2 : b2 < W) (hb3 : b3 < W)
    (ha : val4 a0 a1 a2 a3 < Q) (hb : val4 b0 b1 b2 b3 < Q) :
    ∃ r0 r1 r2 r3 s0 s1 s2 s3,
      butterflyGeneric a0 a1 a2 a3 b0 b1 b2 b3 = (r0, r1, r2, r3, s0, s1, s2, s3) ∧
      r0 < W ∧ r1 < W ∧ r2 < W ∧ r3 < W ∧ s0 < W ∧ s1 < W ∧ s2 < W ∧ s3 < W ∧
      val4 r0 r1 r2 r3 < Q ∧ val4 s0 s1 s2 s3 < Q ∧
      toF (val4 r0 r1 r2 r3) = toF (val4 a0 a1 a2 a3) + toF (val4 b0 b1 b2 b3) ∧
      toF (val4 s0 s1 s2 s3) = toF (val4 a0 a1 a2 a3) - toF (val4 b0 b1 b2 b3) := by
  obtain ⟨r0, r1, r2, r3, s0, s1, s2, s3, e, g0, g1, g2, g3, k0, k1, k2, k3, hr, hs⟩ :=
    butterfly_ok a0 a1 a2 a3 b0 b1 b2 b3 ha0 ha1 ha2 ha3 hb0 hb1 hb2 hb3 ha hb
  exact ⟨r0, r1, r2, r3, s0, s1, s2, s3, e, g0, g1, g2, g3, k0, k1, k2, k3,
    hr ▸ Nat.mod_lt _ (by decide), hs ▸ Nat.mod_lt _ (by decide), toF_add _ _ _ hr, toF_sub _ _ _ hb hs⟩

/-! ## 4. non-vacuity: the kernels evaluated on boundary operands (kernel evaluation, `decide`) -/

/-- the limbs of `q − 1` are canonical: the hypotheses of the theorems are satisfiable at the boundary -/
example : val4 4891460686036598784 2896914383306846353 13281191951274694749 3486998266802970665 < Q ∧
    val4 4891460686036598784 2896914383306846353 13281191951274694749 3486998266802970665 + 1 = Q := by
  decide
/-- `(q − 1) + 1 = 0`: the sum is exactly `q`, the final subtraction must fire -/
example : addGeneric 7 7 7 7 4891460686036598784 2896914383306846353 13281191951274694749 3486998266802970665
    1 0 0 0 = (0, 0, 0, 0) := by decide
/-- `(q − 1) + (q − 1) = q − 2` -/
example : addGeneric 0 0 0 0 4891460686036598784 2896914383306846353 13281191951274694749 3486998266802970665
    4891460686036598784 2896914383306846353 13281191951274694749 3486998266802970665 =
    (4891460686036598783, 2896914383306846353, 13281191951274694749, 3486998266802970665) := by decide
/-- `0 − 1 = q − 1`: the borrow ripples through all four words -/
example : subGeneric 0 0 0 0 0 0 0 0 1 0 0 0 =
    (4891460686036598784, 2896914383306846353, 13281191951274694749, 3486998266802970665) := by decide
/-- `−0 = 0` -/
example : negGeneric 9 9 9 9 0 0 0 0 = (0, 0, 0, 0) := by decide
/-- `1 · 1 = 1` in Montgomery form (`one = R mod q`) -/
example : mulGeneric 0 0 0 0
    12436184717236109307 3962172157175319849 7381016538464732718 1011752739694698287
    12436184717236109307 3962172157175319849 7381016538464732718 1011752739694698287 =
    (12436184717236109307, 3962172157175319849, 7381016538464732718, 1011752739694698287) := by decide
/-- `SetUint64 1 = one`, `fromMont one = 1` -/
example : setUint64 1 = (12436184717236109307, 3962172157175319849, 7381016538464732718, 1011752739694698287) ∧
    fromMontGeneric 12436184717236109307 3962172157175319849 7381016538464732718 1011752739694698287 =
      (1, 0, 0, 0) := by decide
/-- `Halve 1 = (q + 1) / 2` (odd operand: `q` is added before the shift) -/
example : Halve 1 0 0 0 =
    (11669102379873075201, 10671829228508198984, 15863968012492123182, 1743499133401485332) := by decide
/-- `MulBy13 one = 13·R mod q` through the generic branch -/
example : mulByConstant 12436184717236109307 3962172157175319849 7381016538464732718 1011752739694698287 13 =
    (17868810749992763324, 5924006745939515753, 769406925088786241, 2691790815622165739) := by decide

end I3.Props.C05
