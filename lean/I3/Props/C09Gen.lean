/-
  I3.Props.C09Gen — C09 (Goldilocks arithmetic), the two operations of package `ffg` that are NOT limb kernels,
  about the definitions REGENERATED from /repo/ffg/element.go by translator T6:
  `Inverse` (`ToBigIntRegular → big.Int.ModInverse → SetBigInt`) and `Halve` (`z · (1+1)⁻¹`).
  `ffg_Element_Inverse_eq_prim` is also what justifies that the CALLERS of `Inverse` in the translated code
  (`Div`, `BatchInvert`, `Halve`: I3.Props.C18Gen) see it as the primitive `I3.Go.fe.inverse`.
  (`Exp`, `Div`, `BatchInvert`, `Legendre`, `Sqrt` of both fields: I3.Props.C18Gen; the limb kernels: I3.Props.C09Limbs.)
-/
import I3.Props.C18Gen

namespace I3.Props.C09Gen
open I3 I3.Gen.Go I3.Model.FF I3.Props.C18

theorem gp_eq : Gen.ffg_modulus = I3.gp := by decide +kernel

/-- the generated `Inverse` IS the primitive its callers use, for every canonical operand and any destination -/
theorem ffg_Element_Inverse_eq_prim (z : ℕ) {x : ℕ} (hx : x < I3.gp) :
    ffg_Element_Inverse z x = (I3.Go.fe.inverse Gen.ffg_modulus x, I3.Go.fe.inverse Gen.ffg_modulus x) := by
  have hgp : (0 : ℕ) < I3.gp := by decide
  unfold ffg_Element_Inverse I3.Go.fe.toBigIntRegular I3.Go.big.modInverse I3.Go.fe.setBigInt I3.Go.fe.inverse
  rw [gp_eq]
  have hto : ((I3.gp : ℕ) : ℤ).toNat = I3.gp := Int.toNat_natCast _
  have himod : ∀ y : ℕ, y < I3.gp → imod ((y : ℕ) : ℤ) I3.gp = y := by
    intro y hy
    unfold imod
    rw [Int.emod_eq_of_lt (by omega) (by exact_mod_cast hy)]
    simp
  dsimp only
  rw [hto, himod x hx]
  by_cases h0 : x = 0
  · subst h0
    have hz : invMod 0 I3.gp = 0 := by
      have := ffg_inverse_zero
      simpa [inverse, C18.ffg_m] using this
    rw [if_pos rfl, hz]
    show (imod ((0 : ℕ) : ℤ) I3.gp, imod ((0 : ℕ) : ℤ) I3.gp) = (0, 0)
    rw [himod 0 hgp]
  · have hlt : invMod x I3.gp < I3.gp := by
      have := (ffg_inverse_correct x).2
      simpa [inverse, C18.ffg_m] using this
    rw [if_neg h0]
    show (imod ((invMod x I3.gp : ℕ) : ℤ) I3.gp, imod ((invMod x I3.gp : ℕ) : ℤ) I3.gp) = _
    rw [himod _ hlt]

/-- `Inverse`: the multiplicative inverse in `ZMod p` (zero ↦ zero), canonical, receiver = result -/
theorem ffg_Inverse_correct (z : ℕ) {x : ℕ} (hx : x < I3.gp) :
    (ffg_Element_Inverse z x).1 = (ffg_Element_Inverse z x).2 ∧
    (((ffg_Element_Inverse z x).1 : ℕ) : ZMod I3.gp) = (x : ZMod I3.gp)⁻¹ ∧
    (ffg_Element_Inverse z x).1 < I3.gp := by
  rw [ffg_Element_Inverse_eq_prim z hx]
  have h := ffg_inverse_correct x
  simp only [inverse, C18.ffg_m] at h
  refine ⟨rfl, ?_, ?_⟩
  · simpa [I3.Go.fe.inverse, gp_eq] using h.1
  · simpa [I3.Go.fe.inverse, gp_eq] using h.2

theorem ffg_Inverse_zero (z : ℕ) : ffg_Element_Inverse z 0 = (0, 0) := by
  rw [ffg_Element_Inverse_eq_prim z (by decide)]
  have hz : invMod 0 I3.gp = 0 := by
    have := ffg_inverse_zero
    simpa [inverse, C18.ffg_m] using this
  simp [I3.Go.fe.inverse, gp_eq, hz]

/-- `x · Inverse(x) ≡ 1` for every non-zero canonical `x` -/
theorem ffg_Inverse_mul_cancel (z : ℕ) {x : ℕ} (hx : x < I3.gp) (hx0 : x ≠ 0) :
    x * (ffg_Element_Inverse z x).1 % I3.gp = 1 := by
  rw [ffg_Element_Inverse_eq_prim z hx]
  have := inverse_mul_cancel ffg_wf (x := x) (by simpa [C18.ffg_m] using hx) hx0
  simpa [inverse, C18.ffg_m, I3.Go.fe.inverse, gp_eq] using this

/-- `Halve`: `z ↦ z · 2⁻¹`; doubling the result gives `z` back -/
theorem ffg_Halve_eq (z : ℕ) : ffg_Element_Halve z = z * invMod 2 I3.gp % I3.gp := by
  unfold ffg_Element_Halve I3.Go.fe.one I3.Go.fe.double I3.Go.fe.inverse I3.Go.fe.mul
  rw [gp_eq]
  dsimp only
  have : (1 % I3.gp + 1 % I3.gp) % I3.gp = 2 := by decide
  rw [this]

theorem ffg_Halve_correct {z : ℕ} (hz : z < I3.gp) :
    ffg_Element_Halve z < I3.gp ∧ 2 * ffg_Element_Halve z % I3.gp = z := by
  rw [ffg_Halve_eq]
  have hc : invMod 2 I3.gp = 9223372034707292161 := by decide +kernel
  rw [hc]
  unfold I3.gp at *
  omega

-- non-vacuity, evaluated on the generated definitions
example : ffg_Element_Inverse 7 2 = (9223372034707292161, 9223372034707292161) := by decide +kernel
example : ffg_Element_Halve 7 = 9223372034707292164 ∧ ffg_Element_Halve 8 = 4 := by decide +kernel

end I3.Props.C09Gen
