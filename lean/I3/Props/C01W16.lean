/-
  I3.Props.C01W16 — property C01 at width t = 16 (R_F = 8, R_P = 64).
  `tables_lit_16`: the kernel evaluates the relation checker `PoseidonCheck.checkAll` on the tables
  `Gen.PT16.*` (REGENERATED from /repo/poseidon/constants.go on every run) against the literal output of
  the reference Grain generator (`Spec.GrainLit.rc_16`, `mds_16`, proved equal to the generator's output in
  I3.Spec.GrainW16); the witnesses are proposed by `computeWitnesses` inside the same evaluation.
  `tables_ok_16`: the same statement about the generator itself.
  `width_16`: hence (by `checkAll_sound`) the optimised Go loop equals the textbook Poseidon permutation
  on EVERY state of width 16.
-/
import I3.Exec.PoseidonCheck
import I3.Gen.PT16
import I3.Spec.GrainW16
import I3.Lemmas.PoseidonRefine
set_option maxRecDepth 1000000
namespace I3.Props.C01
open I3

theorem tables_lit_16 :
    PoseidonCheck.checkAll q 16 64 Spec.GrainLit.rc_16 Spec.GrainLit.mds_16
      ⟨Gen.PT16.C, Gen.PT16.S, Gen.PT16.M, Gen.PT16.P⟩
      (PoseidonCheck.computeWitnesses q 16 64 Spec.GrainLit.rc_16 Spec.GrainLit.mds_16
        ⟨Gen.PT16.C, Gen.PT16.S, Gen.PT16.M, Gen.PT16.P⟩) = true := by
  decide +kernel

theorem tables_ok_16 :
    PoseidonCheck.checkAll q 16 64 (Grain.bn254Params 16).rc (Grain.mds q (Grain.bn254Params 16))
      ⟨Gen.PT16.C, Gen.PT16.S, Gen.PT16.M, Gen.PT16.P⟩
      (PoseidonCheck.computeWitnesses q 16 64 (Grain.bn254Params 16).rc
        (Grain.mds q (Grain.bn254Params 16)) ⟨Gen.PT16.C, Gen.PT16.S, Gen.PT16.M, Gen.PT16.P⟩) = true := by
  rw [Spec.GrainLit.grain_16.1, Spec.GrainLit.grain_16.2]
  exact tables_lit_16

theorem width_16 (st : List Nat) (hst : st.length = 16) :
    Model.Poseidon.permute q 5 ⟨Gen.PT16.C, Gen.PT16.S, Gen.PT16.M, Gen.PT16.P⟩ 16 64 st =
      Hades.poseidonBN254 (Grain.bn254Params 16) st :=
  PoseidonRefine.width_of_check 16 64 (by decide) _ _ tables_ok_16 st hst

end I3.Props.C01
