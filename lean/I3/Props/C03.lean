/-
  I3.Props.C03 — EdDSA verification accepts exactly the solutions of the verification equation.

  Property theorems about `I3.Model.EdDSA.verify` (the model of `VerifyPoseidon` / `VerifyMimc7` in
  /repo/babyjub/eddsa.go) at the regenerated BabyJubJub constants `K = I3.Inst.bjConsts`, against
  the abstract group `I3.Spec.BJJ.curve.Point`.  `coords P` are the canonical integer coordinates
  of a curve point (what a Go `Point` holds), `B8` is the base point of prime order `l`, `•` is the
  scalar action of the SPEC group.  The field hash `H : List ℤ → Option ℕ` is a PARAMETER
  (`none` = the Go hash returned an error); `hm` names its value on `[R8.x, R8.y, A.x, A.y, msg]`.
  Helper lemmas live in `I3.Lemmas.EdDSA` (`HashTotal H`: `H` returns a value on every vector of
  five canonical field elements).

  The theorems quantify over ALL curve points `A`, `R8` (the whole group of order `8 l`, not only
  the prime-order subgroup), every integer message and every `S` in `[0, l)`.
-/
import I3.Lemmas.EdDSA

namespace I3.Props.C03

open I3 I3.Spec I3.Spec.BJJ I3.Model.BabyJub I3.Model.EdDSA I3.Lemmas.EdDSA

attribute [local instance] I3.Lemmas.Bytes.exceptDecEq

/-- the regenerated Go constants -/
abbrev K : Consts := I3.Inst.bjConsts

/-! ## 1. acceptance is the equation `S • B8 = R8 + (8 hm) • A` -/

/-- **Verification accepts exactly the solutions of the equation.** -/
theorem verify_iff (H : List ℤ → Option ℕ) (A R8 : curve.Point) (msg S : ℤ) (hm : ℕ)
    (hS0 : 0 ≤ S) (hSl : S < (I3.l : ℤ))
    (hH : H [(coords R8).1, (coords R8).2, (coords A).1, (coords A).2, msg] = some hm) :
    verify K H (coords A) msg ⟨coords R8, S⟩ = .ok () ↔ S.toNat • B8 = R8 + (8 * hm) • A := by
  rw [verify_hash_some H _ _ msg S hm hS0 hSl hH, rhsPt_coords]
  constructor
  · intro h
    by_contra hne
    rw [if_neg (fun hc => hne (coords_injective hc))] at h
    cases h
  · intro h
    rw [if_pos (by rw [h])]

/-- every non-solution is rejected with `ErrVerify…Failed` — never another error constructor, never
a hash error, never acceptance. -/
theorem verify_reject (H : List ℤ → Option ℕ) (A R8 : curve.Point) (msg S : ℤ) (hm : ℕ)
    (hS0 : 0 ≤ S) (hSl : S < (I3.l : ℤ))
    (hH : H [(coords R8).1, (coords R8).2, (coords A).1, (coords A).2, msg] = some hm)
    (hne : S.toNat • B8 ≠ R8 + (8 * hm) • A) :
    verify K H (coords A) msg ⟨coords R8, S⟩ = .error .verifyFailed := by
  rw [verify_hash_some H _ _ msg S hm hS0 hSl hH, rhsPt_coords,
    if_neg (fun hc => hne (coords_injective hc))]

/-- in this domain the outcome is one of exactly two values -/
theorem verify_ok_or_failed (H : List ℤ → Option ℕ) (A R8 : curve.Point) (msg S : ℤ) (hm : ℕ)
    (hS0 : 0 ≤ S) (hSl : S < (I3.l : ℤ))
    (hH : H [(coords R8).1, (coords R8).2, (coords A).1, (coords A).2, msg] = some hm) :
    verify K H (coords A) msg ⟨coords R8, S⟩ = .ok () ∨
      verify K H (coords A) msg ⟨coords R8, S⟩ = .error .verifyFailed := by
  by_cases h : S.toNat • B8 = R8 + (8 * hm) • A
  · exact Or.inl ((verify_iff H A R8 msg S hm hS0 hSl hH).2 h)
  · exact Or.inr (verify_reject H A R8 msg S hm hS0 hSl hH h)

/-- when the hash reports an error (some coordinate or the message outside the field) the result
is that error, for ANY integer pairs `a`, `r8` (no curve hypothesis) and `S` in range. -/
theorem verify_hash_error (H : List ℤ → Option ℕ) (a r8 : APoint) (msg S : ℤ)
    (hS0 : 0 ≤ S) (hSl : S < (I3.l : ℤ)) (hH : H [r8.1, r8.2, a.1, a.2, msg] = none) :
    verify K H a msg ⟨r8, S⟩ = .error .hash :=
  verify_hash_none H a r8 msg S hS0 hSl hH

/-- with a hash that is total on the field and a message in the field, the hash step cannot fail:
verification of curve points is decided by the equation alone. -/
theorem verify_iff_total (H : List ℤ → Option ℕ) (hT : HashTotal H) (A R8 : curve.Point)
    (msg S : ℤ) (hm0 : 0 ≤ msg) (hmq : msg < (I3.q : ℤ)) (hS0 : 0 ≤ S) (hSl : S < (I3.l : ℤ)) :
    ∃ hm, H [(coords R8).1, (coords R8).2, (coords A).1, (coords A).2, msg] = some hm ∧
      (verify K H (coords A) msg ⟨coords R8, S⟩ = .ok () ↔ S.toNat • B8 = R8 + (8 * hm) • A) ∧
      (S.toNat • B8 ≠ R8 + (8 * hm) • A →
        verify K H (coords A) msg ⟨coords R8, S⟩ = .error .verifyFailed) := by
  obtain ⟨hm, hH⟩ := hash_defined hT A R8 hm0 hmq
  exact ⟨hm, hH, verify_iff H A R8 msg S hm hS0 hSl hH,
    verify_reject H A R8 msg S hm hS0 hSl hH⟩

/-! ## 2. the two production hashes -/

theorem hPoseidon_total : HashTotal Inst.hPoseidon := I3.Lemmas.EdDSA.hPoseidon_total
theorem hMimc7_total : HashTotal Inst.hMimc7 := I3.Lemmas.EdDSA.hMimc7_total

/-- Poseidon returns an error as soon as one input is negative or `≥ q` -/
theorem hPoseidon_none (v : List ℤ) (h : ∃ x ∈ v, x < 0 ∨ (I3.q : ℤ) ≤ x) :
    Inst.hPoseidon v = none := I3.Lemmas.EdDSA.hPoseidon_none v h

/-- MiMC7 returns an error as soon as one input is negative or `≥ q` -/
theorem hMimc7_none (v : List ℤ) (h : ∃ x ∈ v, x < 0 ∨ (I3.q : ℤ) ≤ x) :
    Inst.hMimc7 v = none := I3.Lemmas.EdDSA.hMimc7_none v h

/-- `VerifyPoseidon` on curve points, a message in the field and `S` in range -/
theorem verifyPoseidon_iff (A R8 : curve.Point) (msg S : ℤ) (hm0 : 0 ≤ msg)
    (hmq : msg < (I3.q : ℤ)) (hS0 : 0 ≤ S) (hSl : S < (I3.l : ℤ)) :
    ∃ hm, Inst.hPoseidon [(coords R8).1, (coords R8).2, (coords A).1, (coords A).2, msg] = some hm ∧
      (verify K Inst.hPoseidon (coords A) msg ⟨coords R8, S⟩ = .ok () ↔
        S.toNat • B8 = R8 + (8 * hm) • A) ∧
      (S.toNat • B8 ≠ R8 + (8 * hm) • A →
        verify K Inst.hPoseidon (coords A) msg ⟨coords R8, S⟩ = .error .verifyFailed) :=
  verify_iff_total _ hPoseidon_total A R8 msg S hm0 hmq hS0 hSl

/-- `VerifyMimc7` on curve points, a message in the field and `S` in range -/
theorem verifyMimc7_iff (A R8 : curve.Point) (msg S : ℤ) (hm0 : 0 ≤ msg)
    (hmq : msg < (I3.q : ℤ)) (hS0 : 0 ≤ S) (hSl : S < (I3.l : ℤ)) :
    ∃ hm, Inst.hMimc7 [(coords R8).1, (coords R8).2, (coords A).1, (coords A).2, msg] = some hm ∧
      (verify K Inst.hMimc7 (coords A) msg ⟨coords R8, S⟩ = .ok () ↔
        S.toNat • B8 = R8 + (8 * hm) • A) ∧
      (S.toNat • B8 ≠ R8 + (8 * hm) • A →
        verify K Inst.hMimc7 (coords A) msg ⟨coords R8, S⟩ = .error .verifyFailed) :=
  verify_iff_total _ hMimc7_total A R8 msg S hm0 hmq hS0 hSl

/-- a message outside the field is reported as a hash error by both production verifiers, whatever
the points (any integer pairs) -/
theorem verify_msg_out_of_field (a r8 : APoint) (msg S : ℤ) (hS0 : 0 ≤ S) (hSl : S < (I3.l : ℤ))
    (hmsg : msg < 0 ∨ (I3.q : ℤ) ≤ msg) :
    verify K Inst.hPoseidon a msg ⟨r8, S⟩ = .error .hash ∧
      verify K Inst.hMimc7 a msg ⟨r8, S⟩ = .error .hash :=
  ⟨verify_hash_error _ a r8 msg S hS0 hSl (hPoseidon_none _ ⟨msg, by simp, hmsg⟩),
    verify_hash_error _ a r8 msg S hS0 hSl (hMimc7_none _ ⟨msg, by simp, hmsg⟩)⟩

/-- a point coordinate outside `[0, q)` (a non-canonical representative) is likewise reported as a
hash error: verification never reduces coordinates silently. -/
theorem verify_coord_out_of_field (a r8 : APoint) (msg S : ℤ) (hS0 : 0 ≤ S)
    (hSl : S < (I3.l : ℤ))
    (hc : ∃ c ∈ [r8.1, r8.2, a.1, a.2], c < 0 ∨ (I3.q : ℤ) ≤ c) :
    verify K Inst.hPoseidon a msg ⟨r8, S⟩ = .error .hash ∧
      verify K Inst.hMimc7 a msg ⟨r8, S⟩ = .error .hash := by
  obtain ⟨c, hc, hbad⟩ := hc
  have hmem : c ∈ [r8.1, r8.2, a.1, a.2, msg] := by
    simp only [List.mem_cons, List.not_mem_nil, or_false] at hc ⊢
    tauto
  exact ⟨verify_hash_error _ a r8 msg S hS0 hSl (hPoseidon_none _ ⟨c, hmem, hbad⟩),
    verify_hash_error _ a r8 msg S hS0 hSl (hMimc7_none _ ⟨c, hmem, hbad⟩)⟩

/-! ## 3. consequences: every single-component alteration of a valid signature is rejected
(as far as this follows from the group structure alone, i.e. without assumptions on `H`) -/

/-- **altered `S`**: if `(A, msg, R8, S)` verifies, every other `S'` in `[0, l)` is rejected
(`B8` has order exactly `l`). -/
theorem verify_other_S_rejected (H : List ℤ → Option ℕ) (A R8 : curve.Point) (msg S S' : ℤ)
    (hS0 : 0 ≤ S) (hSl : S < (I3.l : ℤ)) (hS0' : 0 ≤ S') (hSl' : S' < (I3.l : ℤ))
    (hne : S' ≠ S) (hok : verify K H (coords A) msg ⟨coords R8, S⟩ = .ok ()) :
    verify K H (coords A) msg ⟨coords R8, S'⟩ = .error .verifyFailed := by
  obtain ⟨-, -, hm, hH, -⟩ := verify_ok_elim hok
  have h1 := (verify_iff H A R8 msg S hm hS0 hSl hH).1 hok
  refine verify_reject H A R8 msg S' hm hS0' hSl' hH ?_
  intro h2
  exact hne (toNat_inj_of_nsmul_B8 hS0' hSl' hS0 hSl (h2.trans h1.symm))

/-- **altered `R8`** with an unchanged hash value: rejected.  (`R8` is determined by
`A`, `hm`, `S`.) -/
theorem verify_other_R8_rejected (H : List ℤ → Option ℕ) (A R8 R8' : curve.Point) (msg S : ℤ)
    (hm : ℕ) (hS0 : 0 ≤ S) (hSl : S < (I3.l : ℤ))
    (hH : H [(coords R8).1, (coords R8).2, (coords A).1, (coords A).2, msg] = some hm)
    (hH' : H [(coords R8').1, (coords R8').2, (coords A).1, (coords A).2, msg] = some hm)
    (hne : R8' ≠ R8) (hok : verify K H (coords A) msg ⟨coords R8, S⟩ = .ok ()) :
    verify K H (coords A) msg ⟨coords R8', S⟩ = .error .verifyFailed := by
  have h1 := (verify_iff H A R8 msg S hm hS0 hSl hH).1 hok
  refine verify_reject H A R8' msg S hm hS0 hSl hH' ?_
  intro h2
  exact hne (add_right_cancel (h2.symm.trans h1))

/-- **altered `R8`**, general form: with the new hash value `hm'` the altered signature verifies
iff `R8' + (8 hm') • A = R8 + (8 hm) • A`. -/
theorem verify_other_R8_iff (H : List ℤ → Option ℕ) (A R8 R8' : curve.Point) (msg S : ℤ)
    (hm hm' : ℕ) (hS0 : 0 ≤ S) (hSl : S < (I3.l : ℤ))
    (hH : H [(coords R8).1, (coords R8).2, (coords A).1, (coords A).2, msg] = some hm)
    (hH' : H [(coords R8').1, (coords R8').2, (coords A).1, (coords A).2, msg] = some hm')
    (hok : verify K H (coords A) msg ⟨coords R8, S⟩ = .ok ()) :
    verify K H (coords A) msg ⟨coords R8', S⟩ = .ok () ↔
      R8' + (8 * hm') • A = R8 + (8 * hm) • A := by
  have h1 := (verify_iff H A R8 msg S hm hS0 hSl hH).1 hok
  rw [verify_iff H A R8' msg S hm' hS0 hSl hH', h1]
  exact eq_comm

/-- **altered public key** `A' = A + T` with an unchanged hash value: rejected unless
`(8 hm) • T = 0`. -/
theorem verify_altered_key_rejected (H : List ℤ → Option ℕ) (A T R8 : curve.Point) (msg S : ℤ)
    (hm : ℕ) (hS0 : 0 ≤ S) (hSl : S < (I3.l : ℤ))
    (hH : H [(coords R8).1, (coords R8).2, (coords A).1, (coords A).2, msg] = some hm)
    (hH' : H [(coords R8).1, (coords R8).2, (coords (A + T)).1, (coords (A + T)).2, msg] = some hm)
    (hT : (8 * hm) • T ≠ 0) (hok : verify K H (coords A) msg ⟨coords R8, S⟩ = .ok ()) :
    verify K H (coords (A + T)) msg ⟨coords R8, S⟩ = .error .verifyFailed := by
  have h1 := (verify_iff H A R8 msg S hm hS0 hSl hH).1 hok
  refine verify_reject H (A + T) R8 msg S hm hS0 hSl hH' ?_
  intro h2
  rw [nsmul_add, ← add_assoc, ← h1] at h2
  exact hT (by simpa using h2.symm)

/-- **altered public key**, general form -/
theorem verify_altered_key_iff (H : List ℤ → Option ℕ) (A A' R8 : curve.Point) (msg S : ℤ)
    (hm hm' : ℕ) (hS0 : 0 ≤ S) (hSl : S < (I3.l : ℤ))
    (hH : H [(coords R8).1, (coords R8).2, (coords A).1, (coords A).2, msg] = some hm)
    (hH' : H [(coords R8).1, (coords R8).2, (coords A').1, (coords A').2, msg] = some hm')
    (hok : verify K H (coords A) msg ⟨coords R8, S⟩ = .ok ()) :
    verify K H (coords A') msg ⟨coords R8, S⟩ = .ok () ↔ (8 * hm') • A' = (8 * hm) • A := by
  have h1 := (verify_iff H A R8 msg S hm hS0 hSl hH).1 hok
  rw [verify_iff H A' R8 msg S hm' hS0 hSl hH', h1]
  exact ⟨fun h => (add_left_cancel h).symm, fun h => by rw [h]⟩

/-- **altered message**: with the new hash value `hm'`, the signature verifies for `msg'` iff
`(8 hm') • A = (8 hm) • A`. -/
theorem verify_altered_msg_iff (H : List ℤ → Option ℕ) (A R8 : curve.Point) (msg msg' S : ℤ)
    (hm hm' : ℕ) (hS0 : 0 ≤ S) (hSl : S < (I3.l : ℤ))
    (hH : H [(coords R8).1, (coords R8).2, (coords A).1, (coords A).2, msg] = some hm)
    (hH' : H [(coords R8).1, (coords R8).2, (coords A).1, (coords A).2, msg'] = some hm')
    (hok : verify K H (coords A) msg ⟨coords R8, S⟩ = .ok ()) :
    verify K H (coords A) msg' ⟨coords R8, S⟩ = .ok () ↔ (8 * hm') • A = (8 * hm) • A := by
  have h1 := (verify_iff H A R8 msg S hm hS0 hSl hH).1 hok
  rw [verify_iff H A R8 msg' S hm' hS0 hSl hH', h1]
  exact ⟨fun h => (add_left_cancel h).symm, fun h => by rw [h]⟩

/-- … for a genuine public key `A = s • B8 ≠ 0` this means a hash collision modulo `l`:
the altered message is accepted iff `hm' ≡ hm (mod l)`. -/
theorem verify_altered_msg_iff_modEq (H : List ℤ → Option ℕ) (s : ℕ) (R8 : curve.Point)
    (msg msg' S : ℤ) (hm hm' : ℕ) (hS0 : 0 ≤ S) (hSl : S < (I3.l : ℤ)) (hA : s • B8 ≠ 0)
    (hH : H [(coords R8).1, (coords R8).2, (coords (s • B8)).1, (coords (s • B8)).2, msg] = some hm)
    (hH' : H [(coords R8).1, (coords R8).2, (coords (s • B8)).1, (coords (s • B8)).2, msg'] =
      some hm')
    (hok : verify K H (coords (s • B8)) msg ⟨coords R8, S⟩ = .ok ()) :
    verify K H (coords (s • B8)) msg' ⟨coords R8, S⟩ = .ok () ↔ hm' ≡ hm [MOD I3.l] := by
  rw [verify_altered_msg_iff H (s • B8) R8 msg msg' S hm hm' hS0 hSl hH hH' hok]
  exact eight_mul_nsmul_eq_iff s hA hm' hm

/-! ## 4. non-vacuity -/

/-- the Go test vector of `TestSignVerifyPoseidon` (key 000102…0001, msg = LE bytes 00..09):
all hypotheses of `verify_iff` hold for it, and the model accepts it (kernel evaluation). -/
example : verify K Inst.hPoseidon
    (13277427435165878497778222415993513565335242147425444199013288855685581939618,
     13622229784656158136036771217484571176836296686641868549125388198837476602820)
    42649378395939397566720
    ⟨(11384336176656855268977457483345535180380036354188103142384839473266348197733,
      15383486972088797283337779941324724402501462225528836549661220478783371668959),
     1672775540645840396591609181675628451599263765380031905495115170613215233181⟩ = .ok () := by
  decide +kernel

/-- the same signature with `S + 1`: rejected with `verifyFailed` -/
example : verify K Inst.hPoseidon
    (13277427435165878497778222415993513565335242147425444199013288855685581939618,
     13622229784656158136036771217484571176836296686641868549125388198837476602820)
    42649378395939397566720
    ⟨(11384336176656855268977457483345535180380036354188103142384839473266348197733,
      15383486972088797283337779941324724402501462225528836549661220478783371668959),
     1672775540645840396591609181675628451599263765380031905495115170613215233182⟩ =
      .error .verifyFailed := by
  decide +kernel

/-- MiMC7 (its kernel evaluation is too expensive; the Go vector of `TestSignVerifyMimc7` is
replayed by the correspondence driver instead): the hypotheses of `verifyMimc7_iff` are satisfiable,
e.g. `A = B8`, `R8 = 2 • B8`, `msg = q - 1`, `S = l - 1`. -/
example : ∃ hm, Inst.hMimc7 [(coords (2 • B8)).1, (coords (2 • B8)).2, (coords B8).1, (coords B8).2,
      (I3.q : ℤ) - 1] = some hm ∧
    (verify K Inst.hMimc7 (coords B8) ((I3.q : ℤ) - 1) ⟨coords (2 • B8), (I3.l : ℤ) - 1⟩ = .ok () ↔
      ((I3.l : ℤ) - 1).toNat • B8 = 2 • B8 + (8 * hm) • B8) ∧
    (((I3.l : ℤ) - 1).toNat • B8 ≠ 2 • B8 + (8 * hm) • B8 →
      verify K Inst.hMimc7 (coords B8) ((I3.q : ℤ) - 1) ⟨coords (2 • B8), (I3.l : ℤ) - 1⟩ =
        .error .verifyFailed) :=
  verifyMimc7_iff B8 (2 • B8) _ _ (by decide) (by decide) (by decide) (by decide)

/-- `verify_iff` instantiated: with the constant hash `fun _ => some 0` the triple
`(A, R8, S) = (B8, 5 • B8, 5)` solves the equation, and `S = 6` does not. -/
example : verify K (fun _ => some 0) (coords B8) 7 ⟨coords (5 • B8), 5⟩ = .ok () :=
  (verify_iff _ B8 (5 • B8) 7 5 0 (by decide) (by decide) rfl).2 (by simp)

example : verify K (fun _ => some 0) (coords B8) 7 ⟨coords (5 • B8), 6⟩ = .error .verifyFailed :=
  verify_other_S_rejected _ B8 (5 • B8) 7 5 6 (by decide) (by decide) (by decide) (by decide)
    (by decide) ((verify_iff _ B8 (5 • B8) 7 5 0 (by decide) (by decide) rfl).2 (by simp))

/-- `verify_altered_key_rejected` instantiated: constant hash `1`, `(A, R8, S) = (B8, 5 • B8, 13)`
verifies (`13 = 5 + 8`), the key `A + B8` does not (`8 • B8 ≠ 0`). -/
example : verify K (fun _ => some 1) (coords (B8 + B8)) 7 ⟨coords (5 • B8), 13⟩ =
    .error .verifyFailed :=
  verify_altered_key_rejected _ B8 B8 (5 • B8) 7 13 1 (by decide) (by decide) rfl rfl
    (fun h => absurd (nsmul_B8_inj (n := 8 * 1) (m := 0) (by decide +kernel) (by decide +kernel)
      (by simpa using h)) (by decide))
    ((verify_iff _ B8 (5 • B8) 7 13 1 (by decide) (by decide) rfl).2 (by rw [← add_nsmul]; rfl))

/-- a message `≥ q` gives a hash error with both production hashes -/
example : verify K Inst.hPoseidon (coords B8) (I3.q : ℤ) ⟨coords B8, 1⟩ = .error .hash :=
  (verify_msg_out_of_field _ _ _ 1 (by decide) (by decide) (Or.inr (le_refl _))).1

/-- a non-canonical coordinate `x + q` gives a hash error -/
example : verify K Inst.hMimc7 ((coords B8).1 + (I3.q : ℤ), (coords B8).2) 1 ⟨coords B8, 1⟩ =
    .error .hash :=
  (verify_coord_out_of_field _ _ 1 1 (by decide) (by decide)
    ⟨(coords B8).1 + (I3.q : ℤ), by simp, Or.inr (by
      have := (I3.Lemmas.CurveBridge.coords_nonneg B8).1; omega)⟩).2

end I3.Props.C03
