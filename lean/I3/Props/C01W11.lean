/-
  I3.Props.C01W11 — property C01 at width t = 11 (R_F = 8, R_P = 66).
  `tables_lit_11`: the kernel evaluates the relation checker `PoseidonCheck.checkAll` on the tables
  `Gen.PT11.*` (REGENERATED from /repo/poseidon/constants.go on every run) against the literal output of
  the reference Grain generator (`Spec.GrainLit.rc_11`, `mds_11`, proved equal to the generator's output in
  I3.Spec.GrainW11); the witnesses are proposed by `computeWitnesses` inside the same evaluation.
  `tables_ok_11`: the same statement about the generator itself.
  `width_11`: hence (by `checkAll_sound`) the optimised Go loop equals the textbook Poseidon permutation
  on EVERY state of width 11.
-/
import I3.Exec.PoseidonCheck
import I3.Gen.PT11
import I3.Spec.GrainW11
import I3.Lemmas.PoseidonRefine
set_option maxRecDepth 1000000
namespace I3.Props.C01
open I3

theorem tables_lit_11 :
    PoseidonCheck.checkAll q 11 66 Spec.GrainLit.rc_11 Spec.GrainLit.mds_11
      ⟨Gen.PT11.C, Gen.PT11.S, Gen.PT11.M, Gen.PT11.P⟩
      (PoseidonCheck.computeWitnesses q 11 66 Spec.GrainLit.rc_11 Spec.GrainLit.mds_11
        ⟨Gen.PT11.C, Gen.PT11.S, Gen.PT11.M, Gen.PT11.P⟩) = true := by
  decide +kernel

theorem tables_ok_11 :
    PoseidonCheck.checkAll q 11 66 (Grain.bn254Params 11).rc (Grain.mds q (Grain.bn254Params 11))
      ⟨Gen.PT11.C, Gen.PT11.S, Gen.PT11.M, Gen.PT11.P⟩
      (PoseidonCheck.computeWitnesses q 11 66 (Grain.bn254Params 11).rc
        (Grain.mds q (Grain.bn254Params 11)) ⟨Gen.PT11.C, Gen.PT11.S, Gen.PT11.M, Gen.PT11.P⟩) = true := by
  rw [Spec.GrainLit.grain_11.1, Spec.GrainLit.grain_11.2]
  exact tables_lit_11

theorem width_11 (st : List Nat) (hst : st.length = 11) :
    Model.Poseidon.permute q 5 ⟨Gen.PT11.C, Gen.PT11.S, Gen.PT11.M, Gen.PT11.P⟩ 11 66 st =
      Hades.poseidonBN254 (Grain.bn254Params 11) st :=
  PoseidonRefine.width_of_check 11 66 (by decide) _ _ tables_ok_11 st hst

end I3.Props.C01
