/-
  I3.Props.C01W14 — property C01 at width t = 14 (R_F = 8, R_P = 70).
  `tables_lit_14`: the kernel evaluates the relation checker `PoseidonCheck.checkAll` on the tables
  `Gen.PT14.*` (REGENERATED from /repo/poseidon/constants.go on every run) against the literal output of
  the reference Grain generator (`Spec.GrainLit.rc_14`, `mds_14`, proved equal to the generator's output in
  I3.Spec.GrainW14); the witnesses are proposed by `computeWitnesses` inside the same evaluation.
  `tables_ok_14`: the same statement about the generator itself.
  `width_14`: hence (by `checkAll_sound`) the optimised Go loop equals the textbook Poseidon permutation
  on EVERY state of width 14.
-/
import I3.Exec.PoseidonCheck
import I3.Gen.PT14
import I3.Spec.GrainW14
import I3.Lemmas.PoseidonRefine
set_option maxRecDepth 1000000
namespace I3.Props.C01
open I3

theorem tables_lit_14 :
    PoseidonCheck.checkAll q 14 70 Spec.GrainLit.rc_14 Spec.GrainLit.mds_14
      ⟨Gen.PT14.C, Gen.PT14.S, Gen.PT14.M, Gen.PT14.P⟩
      (PoseidonCheck.computeWitnesses q 14 70 Spec.GrainLit.rc_14 Spec.GrainLit.mds_14
        ⟨Gen.PT14.C, Gen.PT14.S, Gen.PT14.M, Gen.PT14.P⟩) = true := by
  decide +kernel

theorem tables_ok_14 :
    PoseidonCheck.checkAll q 14 70 (Grain.bn254Params 14).rc (Grain.mds q (Grain.bn254Params 14))
      ⟨Gen.PT14.C, Gen.PT14.S, Gen.PT14.M, Gen.PT14.P⟩
      (PoseidonCheck.computeWitnesses q 14 70 (Grain.bn254Params 14).rc
        (Grain.mds q (Grain.bn254Params 14)) ⟨Gen.PT14.C, Gen.PT14.S, Gen.PT14.M, Gen.PT14.P⟩) = true := by
  rw [Spec.GrainLit.grain_14.1, Spec.GrainLit.grain_14.2]
  exact tables_lit_14

theorem width_14 (st : List Nat) (hst : st.length = 14) :
    Model.Poseidon.permute q 5 ⟨Gen.PT14.C, Gen.PT14.S, Gen.PT14.M, Gen.PT14.P⟩ 14 70 st =
      Hades.poseidonBN254 (Grain.bn254Params 14) st :=
  PoseidonRefine.width_of_check 14 70 (by decide) _ _ tables_ok_14 st hst

end I3.Props.C01
