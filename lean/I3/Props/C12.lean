/-
  I3.Props.C12 — key derivation of /repo/babyjub/eddsa.go (`pruneBuffer`, `SkToBigInt`, `Public`).

  `K = I3.Inst.bjConsts` are the constants regenerated from the Go source.  The 512-bit hash is a
  parameter `blake : Bytes → Bytes` of the model; every theorem holds for ANY function with 64-byte
  outputs, and `Inst.blake` (the BLAKE-512 model) is such a function.

  * `pruneBuffer` clamps: clears bits 0–2 and bit 255 and sets bit 254 of the little-endian value;
  * the secret scalar is `clamp(LE(first 32 digest bytes)) / 8`, in `[2^251, 2^252)`;
  * the public key is `scalar • B8`: canonical, on the curve, in the prime-order subgroup.
  (That the three Go derivation routes agree is checked by the correspondence harness.)
-/
import I3.Lemmas.Compress
import I3.Props.C13
import I3.Props.C06
import I3.Props.C20Blake

set_option maxRecDepth 100000

namespace I3.Props.C12

open I3 I3.Spec I3.Spec.BJJ I3.Model.BabyJub I3.Model.EdDSA I3.Lemmas.CurveBridge
  I3.Lemmas.Compress

/-- the constants regenerated from the Go source -/
abbrev K : Consts := I3.Inst.bjConsts

/-! ## 1. `pruneBuffer` -/

/-- **`pruneBuffer` clamps** the 256-bit little-endian value of a 32-byte buffer:
`clamp n = (n mod 2^254) / 8 * 8 + 2^254` (bits 0–2 and 255 cleared, bit 254 set). -/
theorem prune_eq_clamp (b : Bytes) (hb : b.length = 32) :
    leToNat (prune b) = clamp (leToNat b) :=
  leToNat_prune b hb

theorem prune_length (b : Bytes) (hb : b.length = 32) : (prune b).length = 32 := by
  unfold prune
  simp [hb]

/-- bit-level reading of `clamp`: the three low bits and bit 255 are clear, bit 254 is set, every
other bit is the bit of the input -/
theorem clamp_bits (n : ℕ) (i : ℕ) :
    (clamp n).testBit i =
      if i < 3 then false else if i = 254 then true else if i ≥ 255 then false else n.testBit i := by
  unfold clamp
  have e : n % 2 ^ 254 / 8 * 8 + 2 ^ 254 = 2 ^ 254 * 1 + 2 ^ 3 * (n % 2 ^ 254 / 2 ^ 3) := by
    rw [show (2 : ℕ) ^ 3 = 8 from rfl]; ring
  have hlt : 2 ^ 3 * (n % 2 ^ 254 / 2 ^ 3) < 2 ^ 254 :=
    lt_of_le_of_lt (Nat.mul_div_le _ _) (Nat.mod_lt _ (by norm_num))
  rw [e, Nat.testBit_two_pow_mul_add _ hlt, Nat.testBit_two_pow_mul,
    Nat.testBit_div_two_pow, Nat.testBit_mod_two_pow]
  by_cases h3 : i < 3
  · have : i < 254 := by omega
    simp [h3, this]
  · by_cases h254 : i = 254
    · subst h254; simp
    · by_cases h255 : i ≥ 255
      · have h1 : ¬ i < 254 := by omega
        have h6 : i - 254 ≠ 0 := by omega
        have h7 : Nat.testBit 1 (i - 254) = false := by
          rw [← Bool.not_eq_true, Nat.testBit_one_eq_true_iff_self_eq_zero]; exact h6
        simp [h3, h254, h255, h1, h7]
      · have h1 : i < 254 := by omega
        have h2 : 3 ≤ i := by omega
        have h4 : i - 3 + 3 = i := by omega
        have h5 : ¬ 255 ≤ i := by omega
        simp [h3, h254, h5, h1, h2, h4]

/-! ## 2. the secret scalar -/

section
variable (blake : Bytes → Bytes) (hlen : ∀ m, (blake m).length = 64)
include hlen

/-- **`SkToBigInt`**: the clamped little-endian value of the first 32 digest bytes, shifted right
by 3 -/
theorem skToBigInt_eq (key : Bytes) :
    skToBigInt blake key = clamp (leToNat ((blake key).take 32)) / 8 := by
  unfold skToBigInt
  rw [leToNat_prune _ (by rw [List.length_take, hlen]; rfl)]

/-- `8 * SkToBigInt` is the clamped value itself (no bits are lost by the shift) -/
theorem eight_mul_skToBigInt (key : Bytes) :
    8 * skToBigInt blake key = clamp (leToNat ((blake key).take 32)) := by
  rw [skToBigInt_eq blake hlen]
  have := (clamp_range (leToNat ((blake key).take 32))).2.2
  omega

/-- the secret scalar has exactly 252 bits: `2^251 ≤ s < 2^252` -/
theorem skToBigInt_range (key : Bytes) :
    2 ^ 251 ≤ skToBigInt blake key ∧ skToBigInt blake key < 2 ^ 252 := by
  rw [skToBigInt_eq blake hlen]
  obtain ⟨h1, h2, -⟩ := clamp_range (leToNat ((blake key).take 32))
  norm_num only at h1 h2 ⊢
  omega

/-! ## 3. the public key -/

omit hlen in
/-- **`Public`**: the public key is the secret scalar times the base point, in canonical
coordinates -/
theorem publicKey_eq (key : Bytes) :
    publicKey K blake key = coords (skToBigInt blake key • B8) := by
  unfold publicKey
  rw [k_b8, ← coords_B8, mul_coords]

omit hlen in
/-- the public key is a canonical point of the curve -/
theorem publicKey_valid (key : Bytes) :
    inCurve K (publicKey K blake key) = true ∧
      (0 ≤ (publicKey K blake key).1 ∧ (publicKey K blake key).1 < I3.q) ∧
      (0 ≤ (publicKey K blake key).2 ∧ (publicKey K blake key).2 < I3.q) := by
  rw [publicKey_eq blake]
  exact ⟨inCurve_coords _, ⟨(coords_nonneg _).1, (coords_lt _).1⟩, ⟨(coords_nonneg _).2, (coords_lt _).2⟩⟩

omit hlen in
/-- the public key is killed by the subgroup order `l` -/
theorem publicKey_order (key : Bytes) : I3.l • (skToBigInt blake key • B8) = 0 := by
  rw [← mul_nsmul', mul_comm, mul_nsmul', l_smul_B8, nsmul_zero]

omit hlen in
/-- **the public key is in the prime-order subgroup** (as tested by the library's `InSubGroup`) -/
theorem publicKey_inSubGroup (key : Bytes) : inSubGroup K (publicKey K blake key) = true := by
  unfold publicKey
  exact C13.inSubGroup_mul_b8 _

/-- the public key is the identity only for the single scalar `2 l` of the range `[2^251, 2^252)`
(a digest hitting it has probability `2^-251`; the library does not exclude it) -/
theorem publicKey_eq_zero_iff (key : Bytes) :
    publicKey K blake key = (0, 1) ↔ skToBigInt blake key = 2 * I3.l := by
  rw [publicKey_eq blake]
  obtain ⟨h1, h2⟩ := skToBigInt_range blake hlen key
  constructor
  · intro h
    have h0 := eq_zero_of_coords h
    have hd : I3.l ∣ skToBigInt blake key := by
      rw [← addOrderOf_B8]; exact addOrderOf_dvd_of_nsmul_eq_zero h0
    obtain ⟨c, hc⟩ := hd
    have hl1 : 2 ^ 252 < 3 * I3.l := by decide +kernel
    have hl2 : I3.l < 2 ^ 251 := by decide +kernel
    rcases c with _ | _ | _ | c
    · omega
    · omega
    · omega
    · have : I3.l * 3 ≤ I3.l * (c + 1 + 1 + 1) := Nat.mul_le_mul_left _ (by omega)
      omega
  · intro h
    rw [h, mul_nsmul', l_smul_B8, nsmul_zero, coords_zero]

end

/-- the public key survives `Compress`/`Decompress` (C06), for any conforming square root -/
theorem publicKey_roundtrip (blake : Bytes → Bytes) (sqrtFn : ℕ → Option ℕ) (hs : SqrtSpec sqrtFn)
    (key : Bytes) :
    decompress K sqrtFn (compress K (publicKey K blake key)) = .ok (publicKey K blake key) := by
  rw [publicKey_eq blake]
  exact C06.decompress_compress sqrtFn hs _

/-! ## 4. the production hash -/

theorem blake_length (m : Bytes) : (Inst.blake m).length = 64 := C20.blake_digest_length m

theorem publicKey_inSubGroup_inst (key : Bytes) :
    inSubGroup K (publicKey K Inst.blake key) = true :=
  publicKey_inSubGroup Inst.blake key

theorem skToBigInt_range_inst (key : Bytes) :
    2 ^ 251 ≤ skToBigInt Inst.blake key ∧ skToBigInt Inst.blake key < 2 ^ 252 :=
  skToBigInt_range Inst.blake blake_length key

/-! ## 5. non-vacuity: concrete values -/

example : clamp 0 = 2 ^ 254 := by decide
example : clamp (2 ^ 256 - 1) = 2 ^ 255 - 8 := by decide
example : clamp 0xFF = 2 ^ 254 + 0xF8 := by decide
example : prune (List.replicate 32 0xff) = 0xf8 :: List.replicate 30 0xff ++ [0x7f] := by decide
example : prune (List.replicate 32 0) = List.replicate 31 0 ++ [0x40] := by decide
example : leToNat (prune (List.replicate 32 0xff)) = 2 ^ 255 - 8 := by
  rw [prune_eq_clamp _ (by decide)]; decide
/-- the length hypothesis is needed: on 30 bytes `prune` does not clamp -/
example : leToNat (prune (List.replicate 30 0)) ≠ clamp (leToNat (List.replicate 30 0)) := by decide
/-- a toy hash: the all-ones digest gives the largest scalar `2^252 - 1` -/
example : skToBigInt (fun _ => List.replicate 64 0xff) [] = 2 ^ 252 - 1 := by decide
example : skToBigInt (fun _ => List.replicate 64 0) [] = 2 ^ 251 := by decide
example : inSubGroup K (publicKey K (fun _ => List.replicate 64 0xff) []) = true :=
  publicKey_inSubGroup _ []

/-- a concrete key with the production hash `Inst.blake` (BLAKE-512): the key `LE32(1)`; the values
agree with the Go library (`SkToBigInt`, `Public`, `Compress`) -/
example : skToBigInt Inst.blake (natToLE 32 1) =
    7145686369095809317503459916107662843906012966450591263510695581871728353645 := by
  decide +kernel
example : publicKey K Inst.blake (natToLE 32 1) =
    (9294265634356104354972967978764070932614808460219262817760395479619496686168,
     14382649545529405976710664157356364657039027681269256663271478725131562622080) := by
  decide +kernel
example : compress K (publicKey K Inst.blake (natToLE 32 1)) =
    [128, 156, 19, 79, 93, 79, 216, 46, 74, 63, 235, 231, 135, 167, 193, 112, 97, 33, 248, 183, 202,
      49, 90, 157, 251, 137, 24, 147, 137, 74, 204, 31] := by
  decide +kernel
example : 2 ^ 251 ≤ skToBigInt Inst.blake (natToLE 32 1) ∧
    skToBigInt Inst.blake (natToLE 32 1) < 2 ^ 252 := skToBigInt_range_inst _
example : inSubGroup K (publicKey K Inst.blake (natToLE 32 1)) = true := publicKey_inSubGroup_inst _
example : decompress K Inst.sqrtQ (compress K (publicKey K Inst.blake (natToLE 32 1))) =
    .ok (publicKey K Inst.blake (natToLE 32 1)) :=
  publicKey_roundtrip _ _ C06.sqrtQ_spec _

end I3.Props.C12
