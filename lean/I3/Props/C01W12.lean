/-
  I3.Props.C01W12 — property C01 at width t = 12 (R_F = 8, R_P = 60).
  `tables_lit_12`: the kernel evaluates the relation checker `PoseidonCheck.checkAll` on the tables
  `Gen.PT12.*` (REGENERATED from /repo/poseidon/constants.go on every run) against the literal output of
  the reference Grain generator (`Spec.GrainLit.rc_12`, `mds_12`, proved equal to the generator's output in
  I3.Spec.GrainW12); the witnesses are proposed by `computeWitnesses` inside the same evaluation.
  `tables_ok_12`: the same statement about the generator itself.
  `width_12`: hence (by `checkAll_sound`) the optimised Go loop equals the textbook Poseidon permutation
  on EVERY state of width 12.
-/
import I3.Exec.PoseidonCheck
import I3.Gen.PT12
import I3.Spec.GrainW12
import I3.Lemmas.PoseidonRefine
set_option maxRecDepth 1000000
namespace I3.Props.C01
open I3

theorem tables_lit_12 :
    PoseidonCheck.checkAll q 12 60 Spec.GrainLit.rc_12 Spec.GrainLit.mds_12
      ⟨Gen.PT12.C, Gen.PT12.S, Gen.PT12.M, Gen.PT12.P⟩
      (PoseidonCheck.computeWitnesses q 12 60 Spec.GrainLit.rc_12 Spec.GrainLit.mds_12
        ⟨Gen.PT12.C, Gen.PT12.S, Gen.PT12.M, Gen.PT12.P⟩) = true := by
  decide +kernel

theorem tables_ok_12 :
    PoseidonCheck.checkAll q 12 60 (Grain.bn254Params 12).rc (Grain.mds q (Grain.bn254Params 12))
      ⟨Gen.PT12.C, Gen.PT12.S, Gen.PT12.M, Gen.PT12.P⟩
      (PoseidonCheck.computeWitnesses q 12 60 (Grain.bn254Params 12).rc
        (Grain.mds q (Grain.bn254Params 12)) ⟨Gen.PT12.C, Gen.PT12.S, Gen.PT12.M, Gen.PT12.P⟩) = true := by
  rw [Spec.GrainLit.grain_12.1, Spec.GrainLit.grain_12.2]
  exact tables_lit_12

theorem width_12 (st : List Nat) (hst : st.length = 12) :
    Model.Poseidon.permute q 5 ⟨Gen.PT12.C, Gen.PT12.S, Gen.PT12.M, Gen.PT12.P⟩ 12 60 st =
      Hades.poseidonBN254 (Grain.bn254Params 12) st :=
  PoseidonRefine.width_of_check 12 60 (by decide) _ _ tables_ok_12 st hst

end I3.Props.C01
