/-
  I3.Props.C16 (write sites) — Tie A for purity: every in-place write that the translator T4 finds
  in the CURRENT source of /repo targets an object the write discipline allows (I3.Policy).
  These are the premises of the frame / history-independence theorems of I3.Props.C16Machine.
-/
import I3.Gen.Effects
namespace I3.Props.C16
open I3.Policy I3.Gen.Effects

/-- every write site of every function writes only fresh, pool-held or documented-destination objects. -/
theorem all_sites_allowed : ∀ s ∈ sites, allowed s = true := by decide +kernel

/-- the extractor found the write sites (non-vacuity: the list is not empty and contains writes of
    every origin class the policy distinguishes). -/
theorem sites_nonempty : 100 < sites.length := by decide +kernel

theorem sites_cover_classes :
    (sites.any fun s => s.origins.contains .fresh) = true ∧ (sites.any fun s => s.origins.contains .pool) = true ∧
    (sites.any fun s => s.origins.contains .recv) = true ∧ (sites.any fun s => s.origins.contains (.param 0)) = true ∧
    (sites.any fun s => s.fn == "init") = true := by decide +kernel

/-- the policy is not trivially permissive: a write to an argument of an exported function that is not a
    documented destination, and a write to a package constant outside init, are rejected. -/
example : allowed { pkg := "babyjub", fn := "Point.InCurve", line := 0, kind := "big.Int.Mul", what := "x2.Mul(x2, x2)",
                    origins := [.recv], exported := true } = false := by decide
example : allowed { pkg := "babyjub", fn := "Point.InCurve", line := 0, kind := "big.Int.Add", what := "constants.One.Add(constants.One, b)",
                    origins := [.global "constants.One"], exported := true } = false := by decide
example : allowed { pkg := "mimc7", fn := "Hash", line := 0, kind := "big.Int.Mod", what := "arr[i].Mod(arr[i], q)",
                    origins := [.param 0], exported := true } = false := by decide

-- an operation whose result captures a pointer into a package constant is rejected (aliasing escape)
example : allowed { pkg := "babyjub", fn := "PrivateKey.SignPoseidon", line := 0, kind := "capture-global", what := "NewPoint().Mul(r, B8)",
                    origins := [.global "babyjub.B8"], exported := true } = false := by decide

end I3.Props.C16
