/-
  I3.Props.C10 — property C10: the Goldilocks Poseidon hash of /repo/goldenposeidon.

  "For every 8-word input and 4-word capacity of 64-bit integers (words ≥ p count as their residue
   mod p), the hash returns the first four lanes of the width-12 Poseidon permutation (x^7 S-box,
   4 + 22 + 4 rounds, the circulant-plus-diagonal MDS matrix 17,15,41,16,2,28,13,13,39,18,34,20 /
   8,0,…,0 and the Plonky2/Polygon round constants) applied to inputs followed by capacity.  The four
   outputs are canonical values below p and no error is ever returned."      p = 2^64 − 2^32 + 1 = `gp`.

  Objects.
    * `Model.Golden.hash Inst.goldenTab e n rp capLen inp cap` — the executable model of Go `Hash`
      (optimised loop: tables C, S, P, M built by `init` from the raw tables `c,s,p,mcirc,mdiag`, which
      are REGENERATED from /repo/goldenposeidon/constants.go into I3.Gen on every run).  The model is a
      total function to `List Nat`: there is no error value to return (Go `Hash` returns `nil` always).
    * `Hades.permute gp 7 12 8 22 refK refM` — the textbook permutation (I3.Exec.Hades: every round is
      AddRoundConstants, S-box on all lanes / lane 0, dense MDS product) with the reference data of
      I3.Exec.GoldenRef.

  What is proved.
    1. `params`   — the generated parameters are 12 / 8 / 22 / 4 / 7 and the generated `mcirc`, `mdiag`
                    are the numbers of the property text.
    2. `mds_eq`   — the matrix STORED by Go `init` is `refMstored` (entry (i,j) = circ[(i−j) mod 12]),
                    the matrix by which `mix` MULTIPLIES (its transpose) is `refM` (entry (i,j) =
                    circ[(j−i) mod 12] = the circulant whose first row is 17,15,41,…, as in Plonky2);
                    the two differ (the circulant is not symmetric).  `mix_is_refM`: for every state of
                    width 12, Go `mix` with `M` is the textbook product `refM · state`.
    3. `tables_ok`— the kernel evaluates the relation checker `PoseidonCheck.checkAll` on the generated
                    tables against `refK`, `refM` (witnesses proposed inside the same evaluation).
    4. `permute_eq_reference` — hence (`PoseidonRefine.checkAll_sound`) the optimised Go loop is the
                    textbook permutation on EVERY state of width 12.
    5. `hash_spec`, `hash_length`, `hash_canonical`, `hash_mod` (+ `hash_driver`: the same for the
                    expression the correspondence driver evaluates, with the generated parameters).
       They hold for ALL naturals, in particular for all 64-bit words including those ≥ p.
    6. `refK_round0 … refK_last3` — what ties `refK` to the PUBLISHED constants.
    7. `kat_*`    — the published Polygon/Plonky2 test vectors of /repo/goldenposeidon/poseidon_test.go,
                    evaluated on the REFERENCE side; `hash_kat_*` — the same for the Go model, obtained
                    through `hash_spec` (non-vacuity of the whole chain).

  HONEST LIMIT.  The 360 Plonky2 round constants come from a ChaCha-seeded generator that cannot be
  re-derived offline, and the optimised tables do not determine the reference constants of the partial
  rounds uniquely (a constant in a lane ≥ 1 of a partial round can be pushed through the linear layer
  into the next round without changing the permutation).  `refK` is therefore the CANONICAL recovery
  `GoldenRef.recoverK` from the generated table `c` (see I3.Exec.GoldenRef).  Consequences:
    * rounds 0–3 and 27–29 of `refK` are forced by the tables, and are pinned below to literals:
      `refK_round0` and `refK_round1_head` are the literals quoted with the property (Plonky2
      `ALL_ROUND_CONSTANTS[0..16)`); the remaining literals of `refK_round1`, `refK_rounds23`,
      `refK_last3` are the values the kernel computes — an auditor compares them with Plonky2
      `ALL_ROUND_CONSTANTS[12..48)` and `[324..360)`;
    * rounds 4–26 of `refK` are NOT the published numbers (they are c_4 pushed through M, then scalar
      multiples of column 0 of M) — they define the same permutation as any other solution of the
      relation system, but the theorem does not say that the published rounds 4–26 are such a solution;
      that link is only evidenced by the known answers `kat_*`.
  Had the property text's matrix been read as entry (i,j) = circ[(i−j) mod 12] (= `refMstored`),
  statement 4 would be FALSE (`mds_eq.2.2.2`, and `kat_zero_wrong_matrix`).
-/
import I3.Exec.GoldenRef
import I3.Exec.PoseidonCheck
import I3.Model.Instances
import I3.Lemmas.PoseidonRefine
import I3.Lemmas.Golden
set_option maxRecDepth 1000000
namespace I3.Props.C10
open I3 I3.GoldenRef

/-! ### 1. parameters -/

theorem params :
    Gen.golden_mLen = 12 ∧ Gen.golden_NROUNDSF = 8 ∧ Gen.golden_NROUNDSP = 22 ∧ Gen.golden_CAPLEN = 4 ∧
    Gen.golden_sboxExp = 7 ∧ Gen.golden_mcirc = [17, 15, 41, 16, 2, 28, 13, 13, 39, 18, 34, 20] ∧
    Gen.golden_mdiag = [8, 0, 0, 0, 0, 0, 0, 0, 0, 0, 0, 0] := by decide

/-- the modulus is the Goldilocks prime of the property text. -/
theorem gp_eq : gp = 2 ^ 64 - 2 ^ 32 + 1 := by decide

/-! ### 2. the MDS matrix -/

/-- Go stores `refMstored`; `mix` multiplies by its transpose, which is `refM`; they differ. -/
theorem mds_eq :
    PoseidonCheck.transpose 12 Inst.goldenTab.M = refM ∧ Inst.goldenTab.M = refMstored ∧
    PoseidonCheck.transpose 12 refMstored = refM ∧ Inst.goldenTab.M ≠ refM := by decide +kernel

/-- Go `mix` with the table `M` is the textbook product with `refM`, on every state of width 12. -/
theorem mix_is_refM (s : List Nat) (hs : s.length = 12) :
    Model.Poseidon.mix gp Inst.goldenTab.M s = Hades.matVec gp refM s := by
  rw [Lemmas.Golden.mix_eq_matVec_transpose, hs, mds_eq.1]

/-- `refM` spelled out: row 0 is 17+8,15,41,…; every next row is the previous one rotated right. -/
example : refM.take 3 =
    [[25, 15, 41, 16, 2, 28, 13, 13, 39, 18, 34, 20],
     [20, 17, 15, 41, 16, 2, 28, 13, 13, 39, 18, 34],
     [34, 20, 17, 15, 41, 16, 2, 28, 13, 13, 39, 18]] := by decide +kernel

/-! ### 3./4. the optimised loop is the textbook permutation -/

theorem tables_ok :
    PoseidonCheck.checkAll gp 12 22 refK refM Inst.goldenTab
      (PoseidonCheck.computeWitnesses gp 12 22 refK refM Inst.goldenTab) = true := by
  decide +kernel

theorem permute_eq_reference (st : List Nat) (hst : st.length = 12) :
    Model.Poseidon.permute gp 7 Inst.goldenTab 12 22 st = Hades.permute gp 7 12 8 22 refK refM st :=
  PoseidonRefine.checkAll_sound gp 12 22 7 refK refM Inst.goldenTab _ tables_ok st hst

/-! ### 5. the hash -/

theorem hash_spec (inp cap : List Nat) (hi : inp.length = 8) (hc : cap.length = 4) :
    Model.Golden.hash Inst.goldenTab 7 12 22 4 inp cap =
      (Hades.permute gp 7 12 8 22 refK refM ((inp ++ cap).map (· % gp))).take 4 :=
  Lemmas.Golden.hash_of_permute_eq Inst.goldenTab 7 12 22 4 _ permute_eq_reference inp cap
    (by rw [hi, hc])

theorem hash_length (inp cap : List Nat) (hi : inp.length = 8) (hc : cap.length = 4) :
    (Model.Golden.hash Inst.goldenTab 7 12 22 4 inp cap).length = 4 := by
  rw [hash_spec inp cap hi hc, List.length_take,
    Lemmas.Golden.hades_permute_length _ _ _ _ _ _ _ _ (by decide)]
  decide

theorem hash_canonical (inp cap : List Nat) :
    ∀ x ∈ Model.Golden.hash Inst.goldenTab 7 12 22 4 inp cap, x < gp :=
  Lemmas.Golden.hash_lt _ _ _ _ _ inp cap

theorem hash_mod (inp cap : List Nat) :
    Model.Golden.hash Inst.goldenTab 7 12 22 4 inp cap =
      Model.Golden.hash Inst.goldenTab 7 12 22 4 (inp.map (· % gp)) (cap.map (· % gp)) :=
  Lemmas.Golden.hash_mod _ _ _ _ _ inp cap

/-- The expression evaluated by the correspondence driver (generated parameters) satisfies the whole
    specification: reference value, four words, all canonical. -/
theorem hash_driver (inp cap : List Nat) (hi : inp.length = 8) (hc : cap.length = 4) :
    let h := Model.Golden.hash Inst.goldenTab Gen.golden_sboxExp Gen.golden_mLen Gen.golden_NROUNDSP
      Gen.golden_CAPLEN inp cap
    h = (Hades.permute gp 7 12 8 22 refK refM ((inp ++ cap).map (· % gp))).take 4 ∧
    h.length = 4 ∧ ∀ x ∈ h, x < gp := by
  obtain ⟨h1, -, h3, h4, h5, -, -⟩ := params
  rw [h1, h3, h4, h5]
  exact ⟨hash_spec inp cap hi hc, hash_length inp cap hi hc, hash_canonical inp cap⟩

/-! ### 6. the recovered constants against the published ones -/

theorem refK_shape : refK.length = 360 ∧ refK.all (· < gp) = true := by decide +kernel

/-- Plonky2 `ALL_ROUND_CONSTANTS[0..12)`. -/
theorem refK_round0 : refK.take 12 =
    [0xb585f766f2144405, 0x7746a55f43921ad7, 0xb2fb0d31cee799b4, 0x0f6760a4803427d7,
     0xe10d666650f4e012, 0x8cae14cb07d09bf1, 0xd438539c95f63e9f, 0xef781c7ce35b4c3d,
     0xcdc4a239b0c44426, 0x277fa208bf337bff, 0xe17653a29da578a1, 0xc54302f225db2c76] := by
  decide +kernel

/-- Plonky2 `ALL_ROUND_CONSTANTS[12..16)`. -/
theorem refK_round1_head : (refK.drop 12).take 4 =
    [0x86287821f722c881, 0x59cd1a8a41c18e55, 0xc3b919ad495dc574, 0xa484c4c5ef6a0781] := by
  decide +kernel

/-- round 1 in full (to be compared with Plonky2 `ALL_ROUND_CONSTANTS[12..24)`). -/
theorem refK_round1 : (refK.drop 12).take 12 =
    [0x86287821f722c881, 0x59cd1a8a41c18e55, 0xc3b919ad495dc574, 0xa484c4c5ef6a0781,
     0x308bbd23dc5416cc, 0x6e4a40c18f30c09c, 0x9a2eedb70d8f8cfa, 0xe360c6e0ae486f38,
     0xd5c7718fbfc647fb, 0xc35eae071903ff0b, 0x849c2656969c4be7, 0xc0572c8c08cbbbad] := by
  decide +kernel

/-- rounds 2 and 3 (to be compared with Plonky2 `ALL_ROUND_CONSTANTS[24..48)`). -/
theorem refK_rounds23 : (refK.drop 24).take 24 =
    [0xe9fa634a21de0082, 0xf56f6d48959a600d, 0xf7d713e806391165, 0x8297132b32825daf,
     0xad6805e0e30b2c8a, 0xac51d9f5fcf8535e, 0x502ad7dc18c2ad87, 0x57a1550c110b3041,
     0x66bbd30e6ce0e583, 0x0da2abef589d644e, 0xf061274fdb150d61, 0x28b8ec3ae9c29633,
     0x92a756e67e2b9413, 0x70e741ebfee96586, 0x019d5ee2af82ec1c, 0x6f6f2ed772466352,
     0x7cf416cfe7e14ca1, 0x61df517b86a46439, 0x85dc499b11d77b75, 0x4b959b48b9c10733,
     0xe8be3e5da8043e57, 0xf5c0bc1de6da8699, 0x40b12cbf09ef74bf, 0xa637093ecb2ad631] := by
  decide +kernel

/-- the last three rounds 27, 28, 29 (to be compared with Plonky2 `ALL_ROUND_CONSTANTS[324..360)`). -/
theorem refK_last3 : refK.drop 324 =
    [0xe70201e960cb78b8, 0x6f90ff3b6a65f108, 0x42747a7245e7fa84, 0xd1f507e43ab749b2,
     0x1c86d265f15750cd, 0x3996ce73dd832c1c, 0x8e7fba02983224bd, 0xba0dec7103255dd4,
     0x9e9cbd781628fc5b, 0xdae8645996edd6a5, 0xdebe0853b1a1d378, 0xa49229d24d014343,
     0x7be5b9ffda905e1c, 0xa3c95eaec244aa30, 0x0230bca8f4df0544, 0x4135c2bebfe148c6,
     0x166fc0cc438a3c72, 0x3762b59a8ae83efa, 0xe8928a4c89114750, 0x2a440b51a4945ee5,
     0x80cefd2b7d99ff83, 0xbb9879c6e61fd62a, 0x6e7c8f1a84265034, 0x164bb2de1bbeddc8,
     0xf3c12fe54d5c653b, 0x40b9e922ed9771e2, 0x551f5b0fbe7b1840, 0x25032aa7c4cb1811,
     0xaaed34074b164346, 0x8ffd96bbf9c9c81d, 0x70fc91eb5937085c, 0x7f795e2a5f915440,
     0x4543d9df5476d3cb, 0xf172d73e004fc90d, 0xdfd1c4febcc81238, 0xbc8dfb627fe558fc] := by
  decide +kernel

/-! ### 7. known answers on the reference side (vectors of /repo/goldenposeidon/poseidon_test.go) -/

theorem kat_zero :
    (Hades.permute gp 7 12 8 22 refK refM [0, 0, 0, 0, 0, 0, 0, 0, 0, 0, 0, 0]).take 4 =
      [4330397376401421145, 14124799381142128323, 8742572140681234676, 14345658006221440202] := by
  decide +kernel

theorem kat_one :
    (Hades.permute gp 7 12 8 22 refK refM [1, 1, 1, 1, 1, 1, 1, 1, 1, 1, 1, 1]).take 4 =
      [16428316519797902711, 13351830238340666928, 682362844289978626, 12150588177266359240] := by
  decide +kernel

/-- every word `p − 1`. -/
theorem kat_pm1 :
    (Hades.permute gp 7 12 8 22 refK refM (List.replicate 12 18446744069414584320)).take 4 =
      [13691089994624172887, 15662102337790434313, 14940024623104903507, 10772674582659927682] := by
  decide +kernel

theorem kat_mixed :
    (Hades.permute gp 7 12 8 22 refK refM
      [923978, 235763497586, 9827635653498, 112870, 289273673480943876, 230295874986745876,
       6254867324987, 2087, 0, 0, 0, 0]).take 4 =
      [1892171027578617759, 984732815927439256, 7866041765487844082, 8161503938059336191] := by
  decide +kernel

/-- with the transposed matrix (the other reading of "circulant 17,15,41,…") the textbook permutation
    does NOT reproduce the published vector. -/
theorem kat_zero_wrong_matrix :
    (Hades.permute gp 7 12 8 22 refK refMstored [0, 0, 0, 0, 0, 0, 0, 0, 0, 0, 0, 0]).take 4 ≠
      [4330397376401421145, 14124799381142128323, 8742572140681234676, 14345658006221440202] := by
  decide +kernel

/-! ### non-vacuity: the same vectors for the Go model, through `hash_spec` -/

theorem hash_kat_zero :
    Model.Golden.hash Inst.goldenTab 7 12 22 4 [0, 0, 0, 0, 0, 0, 0, 0] [0, 0, 0, 0] =
      [4330397376401421145, 14124799381142128323, 8742572140681234676, 14345658006221440202] := by
  rw [hash_spec _ _ rfl rfl]; exact kat_zero

theorem hash_kat_one :
    Model.Golden.hash Inst.goldenTab 7 12 22 4 [1, 1, 1, 1, 1, 1, 1, 1] [1, 1, 1, 1] =
      [16428316519797902711, 13351830238340666928, 682362844289978626, 12150588177266359240] := by
  rw [hash_spec _ _ rfl rfl]; exact kat_one

theorem hash_kat_pm1 :
    Model.Golden.hash Inst.goldenTab 7 12 22 4 (List.replicate 8 (gp - 1)) (List.replicate 4 (gp - 1)) =
      [13691089994624172887, 15662102337790434313, 14940024623104903507, 10772674582659927682] := by
  rw [hash_spec _ _ rfl rfl]; exact kat_pm1

/-- words equal to `p` (≥ p, still 64-bit) hash like zero — the fifth vector of the Go test. -/
theorem hash_kat_p :
    Model.Golden.hash Inst.goldenTab 7 12 22 4 (List.replicate 8 gp) [0, 0, 0, 0] =
      [4330397376401421145, 14124799381142128323, 8742572140681234676, 14345658006221440202] := by
  rw [hash_spec _ _ rfl rfl]; exact kat_zero

theorem hash_kat_mixed :
    Model.Golden.hash Inst.goldenTab 7 12 22 4
      [923978, 235763497586, 9827635653498, 112870, 289273673480943876, 230295874986745876,
       6254867324987, 2087] [0, 0, 0, 0] =
      [1892171027578617759, 984732815927439256, 7866041765487844082, 8161503938059336191] := by
  rw [hash_spec _ _ rfl rfl]; exact kat_mixed

/-- the largest 64-bit word `2^64 − 1 ≥ p` counts as `2^32 − 2`. -/
example :
    Model.Golden.hash Inst.goldenTab 7 12 22 4 (List.replicate 8 (2 ^ 64 - 1)) [0, 0, 0, 0] =
      Model.Golden.hash Inst.goldenTab 7 12 22 4 (List.replicate 8 (2 ^ 32 - 2)) [0, 0, 0, 0] := by
  rw [hash_mod]; rfl

example : (Model.Golden.hash Inst.goldenTab 7 12 22 4 (List.replicate 8 (2 ^ 64 - 1)) [1, 2, 3, 4]).length = 4 :=
  hash_length _ _ rfl rfl

end I3.Props.C10
