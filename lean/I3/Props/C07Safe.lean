/-
  I3.Props.C07Safe — C07, the "without panicking" half, about the GENERATED code: the checked variants `<name>_ok`
  (`I3/Gen/GoChk*.lean`, emitted by the source translator T6 next to every translated function; `f_ok args = true`
  iff the call reaches a `return` without an index out of range, a slice-bound violation, a negative `make`, a
  division by zero, a nil dereference, a too small `FillBytes` destination or an explicit `panic`, here or in a
  callee) of the hashing entry points are `true` on EVERY input of the Go parameter types.

    * `poseidon.HashWithStateEx(inp, initState, nOuts)`: every list (length 0, > 16: the guards return before any
      table access), every `initState`, every `nOuts` (negative, 0, > t), values outside the field; for accepted
      inputs every index into the state, the round-constant table `C`, the sparse table `S` and the matrices
      `M`, `P` of width `t = len(inp)+1` is in range — the table shapes are those established by
      `I3.Props.C07.inst_tablesPresent` for the tables regenerated from /repo.  `HashWithState`, `Hash`, `HashEx`.
    * `mimc7.Hash(arr, key)` (every list, every key incl. `nil`), `mimc7.HashBytes`, `mimc7.MIMC7Hash`.
    * `mimc7.MIMC7HashGeneric(x, k, nRounds)` / `mimc7.HashGeneric(iv, arr, nRounds)`: these DO panic for
      `nRounds ≤ 0` (`make` with a negative length, resp. `cts[0]` on an empty slice, in `getConstants`); the
      theorems state the exact frontier.
    * the `utils` guards and conversions they call.
-/
import I3.Lemmas.GoSafe

set_option maxRecDepth 100000

namespace I3.Props.C07Safe
open I3 I3.Go I3.Gen.Go I3.GoSafe
open I3.GoBridge I3.GoBridge.PoseidonAux

/-! ## utils -/

/-- **`utils.CheckBigIntInField(a)`**: every integer. -/
theorem utils_CheckBigIntInField_ok_true (a : Int) : utils_CheckBigIntInField_ok a = true :=
  GoSafe.utils_CheckBigIntInField_ok_true a

/-- **`utils.CheckBigIntArrayInField(arr)`**: every list. -/
theorem utils_CheckBigIntArrayInField_ok_true (arr : List Int) : utils_CheckBigIntArrayInField_ok arr = true :=
  GoSafe.utils_CheckBigIntArrayInField_ok_true arr

/-- **`utils.BigIntArrayToElementArray(bi)`**: every list. -/
theorem utils_BigIntArrayToElementArray_ok_true (bi : List Int) : utils_BigIntArrayToElementArray_ok bi = true :=
  GoSafe.utils_BigIntArrayToElementArray_ok_true bi

/-! ## Poseidon -/

/-- **`poseidon.HashWithStateEx(inp, initState, nOuts)`** never panics — EVERY list `inp` (any length, any values),
    every `initState`, every `nOuts`. -/
theorem poseidon_HashWithStateEx_ok_true (inp : List Int) (st n : Int) :
    poseidon_HashWithStateEx_ok inp st n = true := by
  unfold poseidon_HashWithStateEx_ok
  dsimp only
  split
  · rfl
  next hg1 =>
  rw [req_of (utils_CheckBigIntArrayInField_ok_true inp)]
  split
  · rfl
  next hg2 =>
  split
  · rfl
  next hg3 =>
  -- the guards as arithmetic facts
  have hL1 : 1 ≤ inp.length ∧ inp.length ≤ 16 := by
    have : ¬ ((inp.length : Int) = 0 ∨ (inp.length : Int) > 16) := by
      simpa [Go.len, NROUNDSP_length] using hg1
    omega
  have hn : 1 ≤ n ∧ n ≤ Go.len inp + 1 := by
    have : ¬ (n < 1 ∨ n > Go.len inp + 1) := by simpa using hg3
    omega
  obtain ⟨hc1, hc2, hc3, hc4⟩ := poseidon_c_lengths
  have hlen : Go.len inp = (inp.length : Int) := rfl
  have hidx : 0 ≤ Go.len inp + 1 - 2 ∧ Go.len inp + 1 - 2 < 16 := by omega
  rw [req_of (utils_BigIntArrayToElementArray_ok_true inp),
    req_of (inRange_of hidx.1 (by rw [NROUNDSP_length]; exact hidx.2)),
    req_of (inRange_of hidx.1 (by rw [hc1]; exact hidx.2)),
    req_of (inRange_of hidx.1 (by rw [hc2]; exact hidx.2)),
    req_of (inRange_of hidx.1 (by rw [hc3]; exact hidx.2)),
    req_of (inRange_of hidx.1 (by rw [hc4]; exact hidx.2)),
    req_of (by rw [decide_eq_true_eq]; omega),
    req_of (utils_CheckBigIntInField_ok_true st)]
  split
  · rfl
  next hg4 =>
  -- the tables of width t = len(inp) + 1
  obtain ⟨tab, rp, htab, hrp, hok⟩ := Props.C07.inst_tablesPresent (inp.length + 1) (by omega)
    (by have : Gen.poseidon_NROUNDSP.length = 16 := by decide
        omega)
  have et : ((inp.length + 1 : Nat) : Int) = Go.len inp + 1 := by rw [hlen]; rfl
  obtain ⟨eC, eS, eM, eP, eR⟩ := tables_lookup (inp.length + 1) (by omega) tab rp htab hrp
  rw [et] at eC eS eM eP eR
  rw [eC, eS, eM, eP, eR]
  unfold Model.Poseidon.tablesOk at hok
  simp only [Bool.and_eq_true, decide_eq_true_eq, List.all_eq_true, ge_iff_le] at hok
  obtain ⟨⟨⟨⟨⟨hC, hS⟩, hM⟩, hMr⟩, hP⟩, hPr⟩ := hok
  clear eC eS eM eP eR htab hrp
  generalize tab.C = C at *
  generalize tab.S = S at *
  generalize tab.M = M at *
  generalize tab.P = P at *
  -- t = len(inp) + 1 as a variable
  have h2T : 2 * (inp.length + 1) - 1 = 2 * inp.length + 1 := by omega
  rw [h2T] at hS
  have hSi : ((Go.len inp + 1) * 2 - 1) * (rp : Int) ≤ (S.length : Int) := by
    have : (((2 * inp.length + 1) * rp : Nat) : Int) ≤ (S.length : Int) := Int.ofNat_le.2 hS
    rw [Int.natCast_mul] at this
    have e : (((2 * inp.length + 1 : Nat)) : Int) = (Go.len inp + 1) * 2 - 1 := by rw [hlen]; omega
    rw [e] at this
    exact this
  obtain ⟨T, hT⟩ : ∃ T : Nat, T = inp.length + 1 := ⟨_, rfl⟩
  rw [← hT] at hC hMr hM hPr hP et
  have hT2 : 2 ≤ T := by omega
  clear hS h2T hidx hg1 hg3 hL1 hT hc1 hc2 hc3 hc4
  generalize Go.len inp + 1 = t at *
  subst et
  -- the initial state
  have hmk : (Go.make (T : Int) : List Nat).length = T := by rw [length_make]; simp
  rw [req_of (inRange_of (Int.le_refl _) (by rw [hmk]; omega)),
    req_of (sliceOk_from (by decide) (by rw [length_set, hmk]; omega))]
  generalize hs0 : Go.copyInto _ _ _ _ = s0
  have hl0 : s0.length = T := by rw [← hs0, length_copyInto, length_set, hmk]
  clear hs0 hmk
  rw [req_of (poseidon_ark_ok_of s0 C 0 (Int.le_refl _) (by omega))]
  generalize hs1 : poseidon_ark s0 C 0 = s1
  have hl1 : s1.length = T := by rw [← hs1, poseidon_ark_length, hl0]
  clear hs1 hl0 s0
  have h2 : ((2 : Int) != 0) = true := by decide
  simp only [req_of h2, idiv_8_2]
  have hT0 : (0 : Int) ≤ (T : Int) := Int.natCast_nonneg T
  -- first half of the full rounds
  generalize hr1 : Go.forRangeRet _ _ _ _ = r1
  obtain ⟨h1, hl2⟩ := forRangeRet_inv (fun s : List Nat => s.length = T) hr1 hl1 (by
      intro i s hi1 hi2 hP
      obtain ⟨hb1, hb2⟩ := mul_bound (t := (T : Int)) (show 0 ≤ i + 1 by omega) (show i + 1 ≤ 3 by omega) hT0
      obtain ⟨k1, k2, k3, k4⟩ := fullRound_ok T C M s ((i + 1) * (T : Int)) hP hb1 (by omega) hM hMr
      rw [req_of k1, req_of k2, req_of k3]
      exact ⟨rfl, k4⟩)
  obtain ⟨ret1, s2⟩ := r1
  cases h1
  dsimp only at hl2 ⊢
  clear hr1 hl1 s1
  obtain ⟨k1, k2, k3, hl3⟩ := fullRound_ok T C P s2 (4 * (T : Int)) hl2 (by omega) (by omega) hP hPr
  rw [req_of k1, req_of k2, req_of k3, req_of poseidon_zero_ok_true]
  generalize hs3 : poseidon_mix _ _ _ = s3 at hl3 ⊢
  clear k1 k2 k3 hs3 hl2 s2
  -- the partial rounds
  generalize hr2 : Go.forRangeRet _ _ _ _ = r2
  obtain ⟨h1, hl4⟩ := forRangeRet_inv (fun x : List Nat × Nat => x.1.length = T) hr2 hl3 (by
      intro i x hi1 hi2 hP
      obtain ⟨hb1, hb2⟩ := sparse_bound (w := (T : Int) * 2 - 1) (by omega) hi1 hi2
      have hx0 : Go.inRange x.1 0 = true := inRange_of (Int.le_refl _) (by omega)
      simp only [inRange_set, req_of hx0, req_of (poseidon_exp5_ok_true _), req_of poseidon_zero_ok_true]
      rw [req_of (inRange_of (by omega) (by omega))]
      generalize hy : Go.set (Go.set x.1 0 _) 0 _ = y
      have hly : y.length = T := by rw [← hy, length_set, length_set, hP]
      generalize hr3 : Go.forRangeRet _ _ _ _ = r3
      obtain ⟨h3, -⟩ := forRangeRet_inv (fun _ : Nat × Nat => True) hr3 trivial (by
          intro j z hj1 hj2 _
          rw [len_eq, hly] at hj2
          rw [req_of (inRange_of (by omega) (by omega)), req_of (inRange_of hj1 (by omega))]
          exact ⟨rfl, trivial⟩)
      obtain ⟨ret3, a3, b3⟩ := r3
      cases h3
      dsimp only
      generalize hr4 : Go.forRangeRet _ _ _ _ = r4
      obtain ⟨h4, hl5⟩ := forRangeRet_inv (fun z : List Nat × Nat => z.1.length = T) hr4 hly (by
          intro k z hk1 hk2 hQ
          have hzk : Go.inRange z.1 k = true := inRange_of (by omega) (by omega)
          have hz0 : Go.inRange z.1 0 = true := inRange_of (Int.le_refl _) (by omega)
          simp only [req_of hzk, req_of hz0]
          rw [req_of (inRange_of (by omega) (by omega))]
          exact ⟨rfl, by dsimp only; rw [length_set, length_set, hQ]⟩)
      obtain ⟨ret4, a4, b4⟩ := r4
      cases h4
      dsimp only at hl5 ⊢
      rw [req_of (inRange_of (Int.le_refl _) (by omega))]
      exact ⟨rfl, by dsimp only; rw [length_set, hl5]⟩)
  obtain ⟨ret2, s4, m4⟩ := r2
  cases h1
  dsimp only at hl4 ⊢
  clear hr2 hl3 s3
  -- second half of the full rounds
  generalize hr5 : Go.forRangeRet _ _ _ _ = r5
  obtain ⟨h1, hl5⟩ := forRangeRet_inv (fun s : List Nat => s.length = T) hr5 hl4 (by
      intro i s hi1 hi2 hQ
      obtain ⟨hb1, hb2⟩ := mul_bound (t := (T : Int)) hi1 (show i ≤ 2 by omega) hT0
      obtain ⟨k1, k2, k3, k4⟩ := fullRound_ok T C M s ((4 + 1) * (T : Int) + (rp : Int) + i * (T : Int)) hQ
        (by omega) (by omega) hM hMr
      rw [req_of k1, req_of k2, req_of k3]
      exact ⟨rfl, k4⟩)
  obtain ⟨ret5, s5⟩ := r5
  cases h1
  dsimp only at hl5 ⊢
  clear hr5 hl4 s4
  -- the last round (no round constants) and the output
  have hl6 : (poseidon_exp5state s5).length = T := by rw [poseidon_exp5state_length, hl5]
  rw [req_of (poseidon_exp5state_ok_true s5),
    req_of (poseidon_mix_ok_of _ _ _ (by rw [hl6]) (by rw [hl6]; exact hM) (by rw [hl6]; exact hMr)),
    req_of (by rw [decide_eq_true_eq]; omega)]
  generalize hs6 : poseidon_mix _ _ _ = s6
  have hl7 : s6.length = T := by rw [← hs6, poseidon_mix_length _ _ _ (by rw [hl6]), hl6]
  generalize hr6 : Go.forRangeRet _ _ _ _ = r6
  obtain ⟨h1, -⟩ := forRangeRet_inv (fun r : List Int => r.length = n.toNat) hr6 (length_make n) (by
      intro i r hi1 hi2 hQ
      have hri : Go.inRange r i = true := inRange_of hi1 (by omega)
      simp only [inRange_set, req_of hri]
      rw [req_of (inRange_of hi1 (by omega))]
      exact ⟨rfl, by rw [length_set, length_set, hQ]⟩)
  obtain ⟨ret6, s7⟩ := r6
  cases h1
  rfl

/-- **`poseidon.HashWithState(inp, initState)`**: on success `HashWithStateEx(…, 1)` returned exactly one value, so
    `res[0]` exists. -/
theorem poseidon_HashWithState_ok_true (inp : List Int) (st : Int) :
    poseidon_HashWithState_ok inp st = true := by
  have hlen := poseidon_HashWithStateEx_length inp st 1
  go_delta poseidon_HashWithState_ok
  rw [req_of (poseidon_HashWithStateEx_ok_true inp st 1)]
  generalize poseidon_HashWithStateEx inp st 1 = r at hlen ⊢
  as_aux_lemma =>
    obtain ⟨a, e⟩ := r
    dsimp only at hlen ⊢
    split
    · rfl
    · next he =>
      have : e = none := by cases e <;> simp at he ⊢
      have := hlen this
      rw [req_of (inRange_of (Int.le_refl _) (by omega))]

/-- **`poseidon.Hash(inp)`**: every list. -/
theorem poseidon_Hash_ok_true (inp : List Int) : poseidon_Hash_ok inp = true := by
  go_delta poseidon_Hash_ok
  generalize poseidon_HashWithState inp 0 = r
  rw [req_of (poseidon_HashWithState_ok_true inp 0)]

/-- **`poseidon.HashEx(inp, nOuts)`**: every list, every `nOuts`. -/
theorem poseidon_HashEx_ok_true (inp : List Int) (n : Int) : poseidon_HashEx_ok inp n = true := by
  go_delta poseidon_HashEx_ok
  generalize poseidon_HashWithStateEx inp 0 n = r
  rw [req_of (poseidon_HashWithStateEx_ok_true inp 0 n)]

/-! ## MiMC7 -/

/-- **`mimc7.Hash(arr, key)`** never panics: every list (empty, with values outside the field: rejected by the
    guard), every key including `nil`. -/
theorem mimc7_Hash_ok_true (arr : List Int) (key : Option Int) : mimc7_Hash_ok arr key = true := by
  unfold mimc7_Hash_ok
  dsimp only
  rw [req_of (utils_CheckBigIntArrayInField_ok_true arr)]
  split
  · rfl
  · split
    · exact mimc7_hashLoop_ok arr 0
    · next hk =>
      rw [req_of (by cases key <;> simp at hk ⊢)]
      exact mimc7_hashLoop_ok arr _

/-- **`mimc7.MIMC7Hash(x, k)`**: every pair of integers. -/
theorem mimc7_MIMC7Hash_ok_true (x k : Int) : mimc7_MIMC7Hash_ok x k = true := GoSafe.mimc7_MIMC7Hash_ok_true x k

/-- **`mimc7.MIMC7HashGeneric(x, k, nRounds)`** panics exactly for `nRounds ≤ 0` — there Go really panics:
    `make([]*ff.Element, nRounds)` with a negative length, resp. `cts[0]` on an empty slice.  (Reading `ok` as
    "the Go call returns": up to Go's allocation limit.  `make` above ≈ 2^45 elements panics with `makeslice: len out
    of range` instead of exhausting memory; the checked variant treats both alike and does not require a bound.) -/
theorem mimc7_MIMC7HashGeneric_ok_iff (x k n : Int) : mimc7_MIMC7HashGeneric_ok x k n = true ↔ 1 ≤ n :=
  GoSafe.mimc7_MIMC7HashGeneric_ok_iff x k n

/-- the two ways in which `nRounds ≤ 0` panics, on concrete inputs (checked by evaluation): `cts[0]` on an empty
    slice for `nRounds = 0`, `make` with a negative length for `nRounds = -1` -/
theorem mimc7_MIMC7HashGeneric_ok_zero : mimc7_MIMC7HashGeneric_ok 1 2 0 = false := by decide
theorem mimc7_MIMC7HashGeneric_ok_neg_one : mimc7_MIMC7HashGeneric_ok 1 2 (-1) = false := by decide

/-- **`mimc7.HashGeneric(iv, arr, nRounds)`**: no panic iff `nRounds ≥ 1`, or the loop is not entered (`arr`
    empty), or `arr` is rejected by the field guard before the loop. -/
theorem mimc7_HashGeneric_ok_iff (iv : Int) (arr : List Int) (n : Int) :
    mimc7_HashGeneric_ok iv arr n = true ↔
      (1 ≤ n ∨ arr = [] ∨ utils_CheckBigIntArrayInField arr = false) := by
  unfold mimc7_HashGeneric_ok
  dsimp only
  rw [req_of (utils_CheckBigIntArrayInField_ok_true arr)]
  split
  · next hc =>
    have : utils_CheckBigIntArrayInField arr = false := by simpa using hc
    exact ⟨fun _ => Or.inr (Or.inr this), fun _ => rfl⟩
  next hc =>
  have hc' : utils_CheckBigIntArrayInField arr = true := by simpa using hc
  by_cases hn : 1 ≤ n
  · refine ⟨fun _ => Or.inl hn, fun _ => ?_⟩
    generalize hr : Go.forRangeRet _ _ _ _ = r
    obtain ⟨h1, -⟩ := forRangeRet_inv (fun _ : Int => True) hr trivial (by
        intro i r hi1 hi2 _
        rw [req_of (inRange_of hi1 hi2), req_of ((GoSafe.mimc7_MIMC7HashGeneric_ok_iff _ _ _).2 hn)]
        split
        · next h => exact absurd h (by decide)
        · exact ⟨rfl, trivial⟩)
    obtain ⟨ret, st⟩ := r
    cases h1
    rfl
  · cases arr with
    | nil => exact ⟨fun _ => Or.inr (Or.inl rfl), fun _ => rfl⟩
    | cons a l =>
      have hf : mimc7_MIMC7HashGeneric_ok iv (Go.idx (a :: l) 0) n = false := by
        cases h : mimc7_MIMC7HashGeneric_ok iv (Go.idx (a :: l) 0) n
        · rfl
        · exact absurd ((GoSafe.mimc7_MIMC7HashGeneric_ok_iff _ _ _).1 h) hn
      constructor
      · intro h
        exfalso
        generalize hr : Go.forRangeRet _ _ _ _ = r at h
        have := forRangeRet_first_fails hr (by simp [Go.len]) (by
          rw [req_of (inRange_of (Int.le_refl _) (by simp)), req_false_loop hf])
        obtain ⟨ret, st⟩ := r
        cases this
        cases h
      · rintro (h | h | h)
        · exact absurd h hn
        · cases h
        · rw [hc'] at h; cases h

/-- for `nRounds ≥ 1` every list and every `iv` -/
theorem mimc7_HashGeneric_ok_true (iv : Int) (arr : List Int) (n : Int) (hn : 1 ≤ n) :
    mimc7_HashGeneric_ok iv arr n = true := (mimc7_HashGeneric_ok_iff iv arr n).2 (Or.inl hn)

/-- a list that the field guard rejects returns the error before `getConstants` can panic, whatever `nRounds` -/
theorem mimc7_HashGeneric_ok_rejected (iv : Int) (arr : List Int) (n : Int)
    (h : utils_CheckBigIntArrayInField arr = false) : mimc7_HashGeneric_ok iv arr n = true :=
  (mimc7_HashGeneric_ok_iff iv arr n).2 (Or.inr (Or.inr h))

theorem mimc7_HashGeneric_ok_nil (iv n : Int) : mimc7_HashGeneric_ok iv [] n = true :=
  (mimc7_HashGeneric_ok_iff iv [] n).2 (Or.inr (Or.inl rfl))

/-- the panic is real: one accepted element and `nRounds = 0` -/
theorem mimc7_HashGeneric_ok_one_zero : mimc7_HashGeneric_ok 0 [1] 0 = false := by decide

/-- **`mimc7.HashBytes(b)`** never panics: every byte string (every `b[31*i : 31*(i+1)]` with
    `i < len(b)/31` and the tail `b[len(b)/31*31 :]` are within bounds). -/
theorem mimc7_HashBytes_ok_true (b : List UInt8) : mimc7_HashBytes_ok b = true := by
  have h31 : ((31 : Int) != 0) = true := by decide
  go_delta mimc7_HashBytes_ok
  generalize hH : mimc7_Hash = H
  as_aux_lemma =>
    dsimp only
    have hcap : decide ((0 : Int) ≤ Go.idiv (Go.len b) 31 + 1) = true := by
      rw [GoBridge.Mimc7.idiv_len]; exact decide_eq_true (by omega)
    rw [req_of (by decide), req_of h31, req_of hcap, req_of h31]
    generalize hr : Go.forRangeRet _ _ _ _ = r
    obtain ⟨h1, -⟩ := forRangeRet_inv (fun _ : List Int => True) hr trivial (by
        intro i l hi1 hi2 _
        rw [GoBridge.Mimc7.idiv_len] at hi2
        have : (b.length / 31 : Nat) * 31 ≤ b.length := Nat.div_mul_le_self _ _
        rw [req_of (sliceOk_of (by omega) (by omega) (by omega)),
          req_of (utils_SetBigIntFromLEBytes_ok_true _ _)]
        exact ⟨rfl, trivial⟩)
    obtain ⟨ret, st⟩ := r
    cases h1
    dsimp only
    have hs : Go.sliceOk b (Go.idiv (Go.len b) 31 * 31) (Go.len b) = true := by
      rw [GoBridge.Mimc7.idiv_len]
      have : (b.length / 31 : Nat) * 31 ≤ b.length := Nat.div_mul_le_self _ _
      exact sliceOk_from (by omega) (by omega)
    rw [req_of h31]
    split
    · rw [req_of h31, req_of hs, req_of (utils_SetBigIntFromLEBytes_ok_true _ _), req_of (mimc7_Hash_ok_true _ _)]
      split <;> rfl
    · rw [req_of (mimc7_Hash_ok_true _ _)]
      split <;> rfl

end I3.Props.C07Safe
