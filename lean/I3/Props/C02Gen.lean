/-
  I3.Props.C02Gen — EdDSA signing follows the circomlib definition and every signature it produces
  verifies: the headline theorems of I3.Props.C02 restated about the definitions GENERATED from
  /repo/babyjub/eddsa.go by the source translator T6 (`babyjub_PrivateKey_SignPoseidon`,
  `babyjub_PrivateKey_SignMimc7`, `babyjub_PublicKey_VerifyPoseidon`, `babyjub_PublicKey_VerifyMimc7`,
  `babyjub_PrivateKey_Public`, `babyjub_SkToBigInt`, the codecs `babyjub_Signature_Compress`,
  `babyjub_SignatureComp_Decompress`, `babyjub_PublicKey_Compress`, `babyjub_PublicKeyComp_Decompress`)
  and the generated hashes `poseidon_Hash`, `mimc7_Hash · nil`.  They are obtained from the C02
  theorems through the bridge lemmas of I3.Lemmas.GoBridgeEdDSA (`generated = model` for EVERY input;
  the transport is done once, for any triple satisfying the bridge equations: `GoBridge.IsEdDSA`).

  Conventions of the translation: a `PrivateKey` is the list of its bytes (no length hypothesis is
  needed: the key is only hashed), a `*big.Int` is an `ℤ`, a `*Point` / `*PublicKey` a pair `ℤ × ℤ`, a
  `*Signature{R8, S}` is `((ℤ × ℤ) × ℤ)`, `error` is `Option String` (`none` = nil), a nil pointer
  result is the zero value (`default`); `k.SignPoseidon(msg)` is
  `babyjub_PrivateKey_SignPoseidon k msg : ((ℤ × ℤ) × ℤ) × Option String`, `pk.VerifyPoseidon(msg, sig)`
  is `babyjub_PublicKey_VerifyPoseidon pk msg sig : Option String`.  `B8` is the base point of prime
  order `l` in the abstract group `I3.Spec.BJJ.curve.Point`, `•` its scalar action, `coords P` the
  canonical integer coordinates of a point.  `Inst.blake` is BLAKE-512 (= the generated wrapper
  `babyjub_Blake512`, `C12Gen.blake_eq_generated`).

  * the signature is `R8 = r • B8`, `S = (r + hm · 8 s) mod l` with `s = SkToBigInt(k)`,
    `r = LE(BLAKE(BLAKE(k)[32:] ‖ LE32(msg))) mod l`, `hm = Hash [R8.x, R8.y, A.x, A.y, msg]`;
  * signing succeeds exactly for messages in `[0, q)`; otherwise `(nil, "inputs values not inside
    Finite Field")`;
  * what the generated signer produces, the generated verifier accepts for the generated public key —
    also after a trip through the generated 64-byte / 32-byte codecs;
  * signing is a function of (key, message).
-/
import I3.Props.C02
import I3.Lemmas.GoBridgeEdDSA

set_option maxRecDepth 100000

namespace I3.Props.C02Gen

open I3 I3.Spec I3.Spec.BJJ I3.Gen.Go I3.GoBridge
open I3.Model.EdDSA (sign verify publicKey skToBigInt)

/-- the constants regenerated from the Go source -/
abbrev K : Model.BabyJub.Consts := I3.Inst.bjConsts

/-! ## 0. the generated code is the model -/

/-- `SignPoseidon`: `.ok sig ↦ (sig, nil)`, `.error .hash ↦ (nil, "inputs values not inside Finite
Field")` (the model has no other error: `C02.sign_error`) — for every key (any length) and every
integer message -/
theorem signPoseidon_eq_model (k : Bytes) (msg : ℤ) :
    babyjub_PrivateKey_SignPoseidon k msg =
      match sign K Inst.blake Inst.hPoseidon k msg with
      | .ok sig => ((sig.r8, sig.s), none)
      | .error _ => (((0, 0), 0), some "inputs values not inside Finite Field") := by
  rw [babyjub_PrivateKey_SignPoseidon_eq]
  cases sign K Inst.blake Inst.hPoseidon k msg <;> rfl

theorem signMimc7_eq_model (k : Bytes) (msg : ℤ) :
    babyjub_PrivateKey_SignMimc7 k msg =
      match sign K Inst.blake Inst.hMimc7 k msg with
      | .ok sig => ((sig.r8, sig.s), none)
      | .error _ => (((0, 0), 0), some "inputs values not inside Finite Field") := by
  rw [babyjub_PrivateKey_SignMimc7_eq]
  cases sign K Inst.blake Inst.hMimc7 k msg <;> rfl

/-- `VerifyPoseidon`: `.ok () ↦ nil` and one Go error per model error (the model returns no other:
`GoBridge.verify_cases`) — for every public key, message and signature (arbitrary integers) -/
theorem verifyPoseidon_eq_model (pk : ℤ × ℤ) (msg : ℤ) (sig : (ℤ × ℤ) × ℤ) :
    (babyjub_PublicKey_VerifyPoseidon pk msg sig = none ↔
        verify K Inst.hPoseidon pk msg ⟨sig.1, sig.2⟩ = .ok ()) ∧
      (babyjub_PublicKey_VerifyPoseidon pk msg sig = some "ErrSOutOfRange" ↔
        verify K Inst.hPoseidon pk msg ⟨sig.1, sig.2⟩ = .error .sOutOfRange) ∧
      (babyjub_PublicKey_VerifyPoseidon pk msg sig = some "inputs values not inside Finite Field" ↔
        verify K Inst.hPoseidon pk msg ⟨sig.1, sig.2⟩ = .error .hash) ∧
      (babyjub_PublicKey_VerifyPoseidon pk msg sig = some "ErrVerifyPoseidonFailed" ↔
        verify K Inst.hPoseidon pk msg ⟨sig.1, sig.2⟩ = .error .verifyFailed) :=
  babyjub_PublicKey_VerifyPoseidon_iff pk msg sig

theorem verifyMimc7_eq_model (pk : ℤ × ℤ) (msg : ℤ) (sig : (ℤ × ℤ) × ℤ) :
    (babyjub_PublicKey_VerifyMimc7 pk msg sig = none ↔
        verify K Inst.hMimc7 pk msg ⟨sig.1, sig.2⟩ = .ok ()) ∧
      (babyjub_PublicKey_VerifyMimc7 pk msg sig = some "ErrSOutOfRange" ↔
        verify K Inst.hMimc7 pk msg ⟨sig.1, sig.2⟩ = .error .sOutOfRange) ∧
      (babyjub_PublicKey_VerifyMimc7 pk msg sig = some "inputs values not inside Finite Field" ↔
        verify K Inst.hMimc7 pk msg ⟨sig.1, sig.2⟩ = .error .hash) ∧
      (babyjub_PublicKey_VerifyMimc7 pk msg sig = some "ErrVerifyMimc7Failed" ↔
        verify K Inst.hMimc7 pk msg ⟨sig.1, sig.2⟩ = .error .verifyFailed) :=
  babyjub_PublicKey_VerifyMimc7_iff pk msg sig

/-! ## 1. the public key -/

/-- `k.Public()` is `s • B8` with `s = SkToBigInt(k)`: a curve point in canonical coordinates, in
the subgroup of order `l`. -/
theorem publicKey_spec (k : Bytes) :
    babyjub_PrivateKey_Public k = coords ((babyjub_SkToBigInt k).toNat • B8) ∧
      babyjub_Point_InCurve (babyjub_PrivateKey_Public k) = true ∧
      I3.l • ((babyjub_SkToBigInt k).toNat • B8) = 0 := by
  rw [babyjub_Point_InCurve_eq, babyjub_PrivateKey_Public_eq, babyjub_SkToBigInt_eq,
    Int.toNat_natCast]
  exact C02.publicKey_spec Inst.blake k

/-! ## 2. signing never fails in the domain and computes the circomlib signature -/

/-- **Signing never fails** for a message in the field (any key bytes). -/
theorem signPoseidon_ok (k : Bytes) (msg : ℤ) (hm0 : 0 ≤ msg) (hmq : msg < (I3.q : ℤ)) :
    ∃ sig, babyjub_PrivateKey_SignPoseidon k msg = (sig, none) :=
  isEdDSA_poseidon.sign_ok k msg hm0 hmq

theorem signMimc7_ok (k : Bytes) (msg : ℤ) (hm0 : 0 ≤ msg) (hmq : msg < (I3.q : ℤ)) :
    ∃ sig, babyjub_PrivateKey_SignMimc7 k msg = (sig, none) :=
  isEdDSA_mimc7.sign_ok k msg hm0 hmq

/-- **The signature is the circomlib one** (Poseidon): with `s = SkToBigInt(k)`, `A = s • B8`,
`r = LE(blake(blake(k)[32:] ‖ LE32(msg))) mod l`, `R8 = r • B8` and
`hm = poseidon.Hash [R8.x, R8.y, A.x, A.y, msg]` (which succeeds), the result is
`(R8, (r + hm · 8 s) mod l)` with a nil error; `R8` is a curve point in canonical coordinates and
`0 ≤ S < l`. -/
theorem signPoseidon_spec (k : Bytes) (msg : ℤ) (hm0 : 0 ≤ msg) (hmq : msg < (I3.q : ℤ)) (r s : ℕ)
    (hr : r = leToNat (Inst.blake ((Inst.blake k).drop 32 ++ natToLE 32 msg.toNat)) % I3.l)
    (hs : (s : ℤ) = babyjub_SkToBigInt k) :
    ∃ hm : ℕ, poseidon_Hash [(coords (r • B8)).1, (coords (r • B8)).2, (coords (s • B8)).1,
        (coords (s • B8)).2, msg] = ((hm : ℤ), none) ∧
      babyjub_PrivateKey_SignPoseidon k msg =
        ((coords (r • B8), ((r : ℤ) + (hm : ℤ) * (8 * (s : ℤ))) % (I3.l : ℤ)), none) ∧
      0 ≤ ((r : ℤ) + (hm : ℤ) * (8 * (s : ℤ))) % (I3.l : ℤ) ∧
      ((r : ℤ) + (hm : ℤ) * (8 * (s : ℤ))) % (I3.l : ℤ) < (I3.l : ℤ) ∧
      babyjub_Point_InCurve (coords (r • B8)) = true :=
  isEdDSA_poseidon.sign_spec k msg hm0 hmq r s hr hs

/-- **The signature is the circomlib one** (MiMC7, `hm = mimc7.Hash([R8.x, R8.y, A.x, A.y, msg], nil)`) -/
theorem signMimc7_spec (k : Bytes) (msg : ℤ) (hm0 : 0 ≤ msg) (hmq : msg < (I3.q : ℤ)) (r s : ℕ)
    (hr : r = leToNat (Inst.blake ((Inst.blake k).drop 32 ++ natToLE 32 msg.toNat)) % I3.l)
    (hs : (s : ℤ) = babyjub_SkToBigInt k) :
    ∃ hm : ℕ, mimc7_Hash [(coords (r • B8)).1, (coords (r • B8)).2, (coords (s • B8)).1,
        (coords (s • B8)).2, msg] none = ((hm : ℤ), none) ∧
      babyjub_PrivateKey_SignMimc7 k msg =
        ((coords (r • B8), ((r : ℤ) + (hm : ℤ) * (8 * (s : ℤ))) % (I3.l : ℤ)), none) ∧
      0 ≤ ((r : ℤ) + (hm : ℤ) * (8 * (s : ℤ))) % (I3.l : ℤ) ∧
      ((r : ℤ) + (hm : ℤ) * (8 * (s : ℤ))) % (I3.l : ℤ) < (I3.l : ℤ) ∧
      babyjub_Point_InCurve (coords (r • B8)) = true :=
  isEdDSA_mimc7.sign_spec k msg hm0 hmq r s hr hs

/-- every signature returned by the generated signers — for ANY key and message — has `0 ≤ S < l`
and an `R8` that is a curve point (in the subgroup of order `l`) in canonical coordinates. -/
theorem signPoseidon_range (k : Bytes) (msg : ℤ) (sig : (ℤ × ℤ) × ℤ)
    (h : babyjub_PrivateKey_SignPoseidon k msg = (sig, none)) :
    0 ≤ sig.2 ∧ sig.2 < (I3.l : ℤ) ∧ babyjub_Point_InCurve sig.1 = true ∧
      ∃ R8 : curve.Point, sig.1 = coords R8 ∧ I3.l • R8 = 0 :=
  isEdDSA_poseidon.sign_range k msg sig h

theorem signMimc7_range (k : Bytes) (msg : ℤ) (sig : (ℤ × ℤ) × ℤ)
    (h : babyjub_PrivateKey_SignMimc7 k msg = (sig, none)) :
    0 ≤ sig.2 ∧ sig.2 < (I3.l : ℤ) ∧ babyjub_Point_InCurve sig.1 = true ∧
      ∃ R8 : curve.Point, sig.1 = coords R8 ∧ I3.l • R8 = 0 :=
  isEdDSA_mimc7.sign_range k msg sig h

/-- **signing is a function of `(key, msg)`**: the translated signers read nothing else (no
randomness, no state), so two runs give the same result, error included -/
theorem sign_deterministic (k : Bytes) (msg : ℤ) (r r' : ((ℤ × ℤ) × ℤ) × Option String) :
    (babyjub_PrivateKey_SignPoseidon k msg = r → babyjub_PrivateKey_SignPoseidon k msg = r' → r = r') ∧
      (babyjub_PrivateKey_SignMimc7 k msg = r → babyjub_PrivateKey_SignMimc7 k msg = r' → r = r') :=
  ⟨fun h h' => h.symm.trans h', fun h h' => h.symm.trans h'⟩

/-- the only error the signers can return is the error of the hash, with a nil signature; they
return it exactly when the message is outside the field (never reduced) -/
theorem sign_error (k : Bytes) (msg : ℤ) :
    ((∃ sig, babyjub_PrivateKey_SignPoseidon k msg = (sig, none)) ∨
        babyjub_PrivateKey_SignPoseidon k msg =
          (((0, 0), 0), some "inputs values not inside Finite Field")) ∧
      ((∃ sig, babyjub_PrivateKey_SignMimc7 k msg = (sig, none)) ∨
        babyjub_PrivateKey_SignMimc7 k msg =
          (((0, 0), 0), some "inputs values not inside Finite Field")) :=
  ⟨isEdDSA_poseidon.sign_cases k msg, isEdDSA_mimc7.sign_cases k msg⟩

/-- outside the field the message is refused by both signers with the hash error -/
theorem sign_msg_out_of_field (k : Bytes) (msg : ℤ) (hmsg : msg < 0 ∨ (I3.q : ℤ) ≤ msg) :
    babyjub_PrivateKey_SignPoseidon k msg =
        (((0, 0), 0), some "inputs values not inside Finite Field") ∧
      babyjub_PrivateKey_SignMimc7 k msg =
        (((0, 0), 0), some "inputs values not inside Finite Field") :=
  ⟨isEdDSA_poseidon.sign_msg_out_of_field k msg hmsg, isEdDSA_mimc7.sign_msg_out_of_field k msg hmsg⟩

/-- hence: the signers succeed iff `0 ≤ msg < q` -/
theorem sign_ok_iff (k : Bytes) (msg : ℤ) :
    ((∃ sig, babyjub_PrivateKey_SignPoseidon k msg = (sig, none)) ↔ (0 ≤ msg ∧ msg < (I3.q : ℤ))) ∧
      ((∃ sig, babyjub_PrivateKey_SignMimc7 k msg = (sig, none)) ↔ (0 ≤ msg ∧ msg < (I3.q : ℤ))) := by
  constructor
  · refine ⟨fun ⟨sig, h⟩ => ?_, fun ⟨h0, hq⟩ => signPoseidon_ok k msg h0 hq⟩
    by_contra hc
    rw [(sign_msg_out_of_field k msg (by omega)).1] at h
    cases h
  · refine ⟨fun ⟨sig, h⟩ => ?_, fun ⟨h0, hq⟩ => signMimc7_ok k msg h0 hq⟩
    by_contra hc
    rw [(sign_msg_out_of_field k msg (by omega)).2] at h
    cases h

/-! ## 3. completeness: what the generated signer produces, the generated verifier accepts -/

/-- **Every signature produced by `SignPoseidon` verifies under the signer's public key** — any key
bytes, any message. -/
theorem signPoseidon_verify (k : Bytes) (msg : ℤ) (sig : (ℤ × ℤ) × ℤ)
    (h : babyjub_PrivateKey_SignPoseidon k msg = (sig, none)) :
    babyjub_PublicKey_VerifyPoseidon (babyjub_PrivateKey_Public k) msg sig = none :=
  isEdDSA_poseidon.sign_verify k msg sig h

/-- **Every signature produced by `SignMimc7` verifies under the signer's public key.** -/
theorem signMimc7_verify (k : Bytes) (msg : ℤ) (sig : (ℤ × ℤ) × ℤ)
    (h : babyjub_PrivateKey_SignMimc7 k msg = (sig, none)) :
    babyjub_PublicKey_VerifyMimc7 (babyjub_PrivateKey_Public k) msg sig = none :=
  isEdDSA_mimc7.sign_verify k msg sig h

/-- **sign-then-verify** in the domain (Poseidon): a signature is returned and it verifies -/
theorem sign_verify_poseidon (k : Bytes) (msg : ℤ) (hm0 : 0 ≤ msg) (hmq : msg < (I3.q : ℤ)) :
    ∃ sig, babyjub_PrivateKey_SignPoseidon k msg = (sig, none) ∧
      babyjub_PublicKey_VerifyPoseidon (babyjub_PrivateKey_Public k) msg sig = none :=
  isEdDSA_poseidon.sign_ok_verify k msg hm0 hmq

/-- **sign-then-verify** in the domain (MiMC7) -/
theorem sign_verify_mimc7 (k : Bytes) (msg : ℤ) (hm0 : 0 ≤ msg) (hmq : msg < (I3.q : ℤ)) :
    ∃ sig, babyjub_PrivateKey_SignMimc7 k msg = (sig, none) ∧
      babyjub_PublicKey_VerifyMimc7 (babyjub_PrivateKey_Public k) msg sig = none :=
  isEdDSA_mimc7.sign_ok_verify k msg hm0 hmq

/-! ## 4. … also after a trip through the generated 64-byte and 32-byte encodings -/

/-- the signature survives `sig.Compress()` / `sComp.Decompress()`, the public key
`pk.Compress()` / `pkComp.Decompress()` (no error, same values), so the decoded signature verifies
under the decoded key (Poseidon) -/
theorem sign_verify_roundtrip_poseidon (k : Bytes) (msg : ℤ) (sig : (ℤ × ℤ) × ℤ)
    (h : babyjub_PrivateKey_SignPoseidon k msg = (sig, none)) :
    babyjub_SignatureComp_Decompress (babyjub_Signature_Compress sig) = (sig, none) ∧
      babyjub_PublicKeyComp_Decompress (babyjub_PublicKey_Compress (babyjub_PrivateKey_Public k)) =
        (babyjub_PrivateKey_Public k, none) ∧
      babyjub_PublicKey_VerifyPoseidon (babyjub_PrivateKey_Public k) msg sig = none :=
  isEdDSA_poseidon.sign_verify_roundtrip k msg sig h

/-- the same for MiMC7 -/
theorem sign_verify_roundtrip_mimc7 (k : Bytes) (msg : ℤ) (sig : (ℤ × ℤ) × ℤ)
    (h : babyjub_PrivateKey_SignMimc7 k msg = (sig, none)) :
    babyjub_SignatureComp_Decompress (babyjub_Signature_Compress sig) = (sig, none) ∧
      babyjub_PublicKeyComp_Decompress (babyjub_PublicKey_Compress (babyjub_PrivateKey_Public k)) =
        (babyjub_PrivateKey_Public k, none) ∧
      babyjub_PublicKey_VerifyMimc7 (babyjub_PrivateKey_Public k) msg sig = none :=
  isEdDSA_mimc7.sign_verify_roundtrip k msg sig h

/-- the generated codecs are the model's, for EVERY signature (any integers) and EVERY buffer (the Go
type is `[64]byte`; no length hypothesis is needed): same 64 bytes; same decoded signature on success;
on failure the error of `Point.Decompress` on the first 32 bytes (`GoBridge.errMsg`) — the model has
no other failure (`GoBridge.sigDecompress_error`) -/
theorem signature_codec_eq_model (sig : (ℤ × ℤ) × ℤ) (b : Bytes) :
    babyjub_Signature_Compress sig = Model.EdDSA.sigCompress K ⟨sig.1, sig.2⟩ ∧
      (babyjub_SignatureComp_Decompress b = (sig, none) ↔
        Model.EdDSA.sigDecompress K Inst.sqrtQ b = .ok ⟨sig.1, sig.2⟩) ∧
      (∀ e, Model.EdDSA.sigDecompress K Inst.sqrtQ b = .error (.point e) →
        babyjub_SignatureComp_Decompress b = (((0, 0), 0), some (errMsg e))) := by
  refine ⟨babyjub_Signature_Compress_eq sig, ?_, fun e he => ?_⟩
  · rw [babyjub_SignatureComp_Decompress_eq]
    exact sigOfExcept_ok_iff _ sig
  · rw [babyjub_SignatureComp_Decompress_eq, he]
    rfl

/-- `s.Decompress(buf)` with an explicit receiver: on success the receiver after the call is the
returned signature; on error the returned pointer is nil and — `s.R8` being assigned before the error
check — the receiver's `R8` is the nil pointer returned by `Point.Decompress` (zero value `(0, 0)`),
its `S` is untouched.  `buf` is a `[64]byte`. -/
theorem signature_decompress_receiver (recv : (ℤ × ℤ) × ℤ) (b : Bytes) (hb : b.length = 64) :
    (∃ sig, babyjub_Signature_Decompress recv b = (sig, none, sig) ∧
        babyjub_SignatureComp_Decompress b = (sig, none)) ∨
      (∃ msg, babyjub_Signature_Decompress recv b = (((0, 0), 0), some msg, ((0, 0), recv.2)) ∧
        babyjub_SignatureComp_Decompress b = (((0, 0), 0), some msg) ∧
        (babyjub_Point_Decompress (0, 1) (b.take 32)).2.1 = some msg) := by
  have hlen : (b.take 32).length = 32 := by rw [List.length_take]; omega
  rw [babyjub_Signature_Decompress_eq recv b, babyjub_SignatureComp_Decompress_eq b,
    babyjub_Point_Decompress_eq _ _ hlen]
  unfold Model.EdDSA.sigDecompress
  cases Model.BabyJub.decompress GoBridge.K Inst.sqrtQ (b.take 32) with
  | ok p => exact Or.inl ⟨_, rfl, rfl⟩
  | error e => exact Or.inr ⟨_, rfl, rfl, rfl⟩

/-! ## 5. non-vacuity -/

/-- `TestSignVerifyPoseidon` of /repo/babyjub/eddsa_test.go (key = 000102…0001,
msg = LE(00 01 … 09)): the GENERATED `SignPoseidon`, evaluated by the kernel (≈ 30 s, 5.5 GB: two
BLAKE-512, two scalar multiplications, one Poseidon hash of the translated code), returns the
`R8.X`, `R8.Y`, `S` asserted by the Go test and a nil error -/
example : babyjub_PrivateKey_SignPoseidon
      [0, 1, 2, 3, 4, 5, 6, 7, 8, 9, 0, 1, 2, 3, 4, 5, 6, 7, 8, 9, 0, 1, 2, 3, 4, 5, 6, 7, 8, 9, 0, 1]
      42649378395939397566720 =
    (((11384336176656855268977457483345535180380036354188103142384839473266348197733,
       15383486972088797283337779941324724402501462225528836549661220478783371668959),
      1672775540645840396591609181675628451599263765380031905495115170613215233181), none) := by
  decide +kernel

/-- the general theorems instantiated on that key and message -/
example : ∃ sig, babyjub_PrivateKey_SignPoseidon
      [0, 1, 2, 3, 4, 5, 6, 7, 8, 9, 0, 1, 2, 3, 4, 5, 6, 7, 8, 9, 0, 1, 2, 3, 4, 5, 6, 7, 8, 9, 0, 1]
      42649378395939397566720 = (sig, none) ∧
    babyjub_PublicKey_VerifyPoseidon (babyjub_PrivateKey_Public
      [0, 1, 2, 3, 4, 5, 6, 7, 8, 9, 0, 1, 2, 3, 4, 5, 6, 7, 8, 9, 0, 1, 2, 3, 4, 5, 6, 7, 8, 9, 0, 1])
      42649378395939397566720 sig = none :=
  sign_verify_poseidon _ _ (by decide) (by decide)

/-- the empty key and the largest message `q - 1` are in the domain too -/
example : ∃ sig, babyjub_PrivateKey_SignMimc7 [] ((I3.q : ℤ) - 1) = (sig, none) ∧
    babyjub_PublicKey_VerifyMimc7 (babyjub_PrivateKey_Public []) ((I3.q : ℤ) - 1) sig = none :=
  sign_verify_mimc7 _ _ (by decide) (by decide)

/-- `msg = q` is refused -/
example : babyjub_PrivateKey_SignPoseidon [] (I3.q : ℤ) =
    (((0, 0), 0), some "inputs values not inside Finite Field") :=
  (sign_msg_out_of_field [] _ (Or.inr (le_refl _))).1

/-- `TestPublicKey` of the Go test-suite: `pk.X`, `pk.Y` (kernel evaluation of the generated code) -/
example : babyjub_PrivateKey_Public
    [0, 1, 2, 3, 4, 5, 6, 7, 8, 9, 0, 1, 2, 3, 4, 5, 6, 7, 8, 9, 0, 1, 2, 3, 4, 5, 6, 7, 8, 9, 0, 1] =
    (13277427435165878497778222415993513565335242147425444199013288855685581939618,
     13622229784656158136036771217484571176836296686641868549125388198837476602820) := by
  decide +kernel

/-- the 64-byte encoding of the Go test's signature, by the generated `Signature.Compress` -/
example : babyjub_Signature_Compress
    ((11384336176656855268977457483345535180380036354188103142384839473266348197733,
      15383486972088797283337779941324724402501462225528836549661220478783371668959),
     1672775540645840396591609181675628451599263765380031905495115170613215233181) =
    [0xdf, 0xed, 0xb4, 0x31, 0x5d, 0x3f, 0x2e, 0xb4, 0xde, 0x2d, 0x3c, 0x51, 0x0d, 0x7a, 0x98, 0x7d,
     0xca, 0xb6, 0x70, 0x89, 0xc8, 0xac, 0xe0, 0x63, 0x08, 0x82, 0x7b, 0xf5, 0xbc, 0xbe, 0x02, 0xa2,
     0x9d, 0x04, 0x3e, 0xce, 0x56, 0x2a, 0x8f, 0x82, 0xbf, 0xc0, 0xad, 0xb6, 0x40, 0xc0, 0x10, 0x7a,
     0x7d, 0x3a, 0x27, 0xc1, 0xc7, 0xc1, 0xa6, 0x17, 0x9a, 0x0d, 0xa7, 0x3d, 0xe5, 0xc1, 0xb2, 0x03] := by
  decide +kernel

end I3.Props.C02Gen
