/-
  I3.Props.C20KeccakGen — property C20, third-party part (Keccak): the portable permutation of
  golang.org/x/crypto/sha3 (keccakf.go, `func keccakF1600(a *[25]uint64)`, build tag `!amd64 || purego || !gc` — what the
  project's GOARCH=386 harness build executes), TRANSLATED statement by statement by tools/gen_keccak into
  I3.Gen.KeccakF (namespace I3.Gen.KeccakGo), equals the specification's Keccak-f[1600] `I3.Keccak.keccakF`
  (I3.Exec.Keccak) for every 25-word state.
  The sponge of sha3.go / hashes.go (`NewLegacyKeccak256`, `Write`, `Sum`, `Read`, `padAndPermute`, `permute`, `clone`) is
  translated into I3.Gen.KeccakSponge; proved about it here: the little-endian pointer cast is lossless, `permute` is the
  specification's Keccak-f[1600] on the word view of the 200 state bytes, the parameters of `NewLegacyKeccak256`, and
  known answers / comparisons with the specification on concrete messages (kernel evaluation of the translated code).
  NOT proved: the refinement of the translated `Write`/`Sum` to the streaming model `Keccak.Sponge` for every input.
  Property theorems only; proofs in I3.Lemmas.KeccakBridge, I3.Lemmas.KeccakSpongeBridge.
-/
import I3.Lemmas.KeccakBridge
import I3.Lemmas.KeccakSpongeBridge
namespace I3.Props.C20KeccakGen
open I3 I3.Gen.KeccakGo I3.Lemmas.KeccakBridge I3.Lemmas.KeccakSpongeBridge

private def hex (s : String) : Bytes := (hexDecodeOk s.toList).getD []

/-- **Every translated round block is one round of the specification**, for an arbitrary state and loop variable `i`.
    The Go code is the in-place variant of the reference code: `lanes0 … lanes3` say in which array cell it keeps lane
    `x + 5y` of the specification before `// Round 1 … 4` (`lanes0` = `lanes` = natural order, also the layout after
    `// Round 4`); the round constant is `rc[i], rc[i+1], rc[i+2], rc[i+3]`. -/
theorem rounds_eq_round (i : Nat) (s : A) :
    lanes1 (round1 i s) = Keccak.round (lanes0 s) (rc.getD i 0) ∧
    lanes2 (round2 i s) = Keccak.round (lanes1 s) (rc.getD (i + 1) 0) ∧
    lanes3 (round3 i s) = Keccak.round (lanes2 s) (rc.getD (i + 2) 0) ∧
    lanes0 (round4 i s) = Keccak.round (lanes3 s) (rc.getD (i + 3) 0) :=
  ⟨round1_eq i s, round2_eq i s, round3_eq i s, round4_eq i s⟩

/-- one iteration of the translated loop = four consecutive rounds of the specification. -/
theorem loopBody_eq_rounds (i : Nat) (s : A) :
    lanes (loopBody i s) =
      Keccak.round (Keccak.round (Keccak.round (Keccak.round (lanes s) (rc.getD i 0)) (rc.getD (i + 1) 0))
        (rc.getD (i + 2) 0)) (rc.getD (i + 3) 0) :=
  loopBody_eq i s

/-- the translated table `rc` is the specification's table of round constants. -/
theorem rc_eq_spec : rc = Keccak.RC := rc_eq

/-- **The translated `keccakF1600` is Keccak-f[1600]** for every 25-word state (the Go array `a` read in natural
    order: lane `x + 5y` is `a[x + 5y]`). -/
theorem keccakF1600_go_eq_spec (s : A) : lanes (keccakF1600 s) = Keccak.keccakF (lanes s) :=
  keccakF1600_eq s

/-- the same for a state given as an array of 25 words (the form used by the specification). -/
theorem keccakF1600_go_eq_spec_array (a : Array UInt64) (h : a.size = 25) :
    lanes (keccakF1600 (ofLanes a)) = Keccak.keccakF a :=
  keccakF1600_eq_array a h

/-- `lanes`/`ofLanes` are mutually inverse, so nothing is lost in the change of representation. -/
theorem lanes_ofLanes_id (a : Array UInt64) (h : a.size = 25) : lanes (ofLanes a) = a := lanes_ofLanes a h
theorem ofLanes_lanes_id (s : A) : ofLanes (lanes s) = s := ofLanes_lanes s

/-- the fuel of the generated loop (6 = the number of values `i` takes) is exact: more fuel changes nothing. -/
theorem loop_fuel (k : Nat) (s : A) : loop (6 + k) 0 s = loop 6 0 s := by
  have e : 6 + k = k + 1 + 1 + 1 + 1 + 1 + 1 := by omega
  rw [e]
  cases k <;> rfl

/-- the SHA-256 of the translated source file (sha3/keccakf.go of golang.org/x/crypto v0.32.0). -/
example : keccakfSha256 = "905f7cd07071da81fdf687fe2f7ffd63953db93578573c49d9d9c26c0352f4f5" := rfl

/-! ### the translated sponge (I3.Gen.KeccakSponge) -/

/-- **the cast `(*[25]uint64)(unsafe.Pointer(&d.a))` of a little-endian host is lossless**: 25 words written as 200
    bytes and read back as 25 words are unchanged. -/
theorem cast_roundtrip (s : A) : wordsOfBytes (bytesOfWords s) = s := wordsOfBytes_bytesOfWords s

/-- **the translated `(*state).permute` is Keccak-f[1600] of the specification** on the little-endian word view of the
    200 state bytes, for every state object. -/
theorem permute_go_eq_spec (d : State) :
    lanes (wordsOfBytes (state_permute d).a) = Keccak.keccakF (lanes (wordsOfBytes d.a)) :=
  permute_eq_spec d

/-- `permute` changes `d.a` and sets `d.n = 0`; `rate`, `dsbyte`, `outputLen`, `state` are untouched. -/
theorem permute_frame (d : State) :
    state_permute d = { d with a := bytesOfWords (keccakF1600 (wordsOfBytes d.a)), n := 0 } :=
  permute_fields d

/-- `NewLegacyKeccak256()`: rate 136, domain byte 0x01, 32 output bytes, all-zero state, absorbing — the parameters of
    `Keccak.keccak256` (`Keccak.rate`, `Keccak.padLast`, `Keccak.squeeze32`, `Keccak.zeroLanes`). -/
theorem new_parameters :
    NewLegacyKeccak256 = { a := List.replicate 200 0, n := 0, rate := 136, dsbyte := 0x01, outputLen := 32, state := 0 } ∧
    lanes (wordsOfBytes NewLegacyKeccak256.a) = Keccak.zeroLanes ∧
    state_Write_panics NewLegacyKeccak256 = false ∧ state_Sum_panics NewLegacyKeccak256 = false :=
  ⟨new_fields, new_words, rfl, rfl⟩

/-! ### known answers through the translated code (`NewLegacyKeccak256`, `Write` per slice, `Sum(nil)`) -/

/-- Keccak-256 of the empty message. -/
example : state_Sum NewLegacyKeccak256 [] =
    hex "c5d2460186f7233c927e7db2dcc703c0e500b653ca82273b7bfad8045d85a470" := by decide +kernel

/-- Keccak-256 of "abc", one slice. -/
example : state_Sum (state_Write NewLegacyKeccak256 [0x61, 0x62, 0x63]).1 [] =
    hex "4e03657aea45a94fc7d47ba826c8d667c0d1e6e33a64a036ec44f58fa12d6c45" := by decide +kernel

/-- Keccak-256 of "abc" written as "a", "", "bc". -/
example : state_Sum (state_Write (state_Write (state_Write NewLegacyKeccak256 [0x61]).1 []).1 [0x62, 0x63]).1 [] =
    hex "4e03657aea45a94fc7d47ba826c8d667c0d1e6e33a64a036ec44f58fa12d6c45" := by decide +kernel

/-- 200 bytes in two slices (the first `Write` stops inside a block, the second crosses the block boundary):
    translated code = specification. -/
example : state_Sum (state_Write (state_Write NewLegacyKeccak256 (List.replicate 100 0xa3)).1 (List.replicate 100 0xa3)).1 [] =
    Keccak.keccak256 (List.replicate 200 0xa3) := by decide +kernel

/-- 135 bytes (the padding is the single byte 0x81) and 136 bytes (a whole extra padding block). -/
example : state_Sum (state_Write NewLegacyKeccak256 (List.replicate 135 0x5a)).1 [] =
    Keccak.keccak256 (List.replicate 135 0x5a) := by decide +kernel
example : state_Sum (state_Write NewLegacyKeccak256 (List.replicate 136 0x5a)).1 [] =
    Keccak.keccak256 (List.replicate 136 0x5a) := by decide +kernel

/-- `Sum` appends to its argument and does not write the receiver (the translation has no other output). -/
example : state_Sum NewLegacyKeccak256 [1, 2] =
    [1, 2] ++ hex "c5d2460186f7233c927e7db2dcc703c0e500b653ca82273b7bfad8045d85a470" := by decide +kernel

/-- the SHA-256 of the translated source files (sha3/sha3.go, sha3/hashes.go of golang.org/x/crypto v0.32.0). -/
example : sha3Sha256 = "e521df1995c6e9f1d9571a7f9332d24f8e361211264f9fbeb4ba0ae20bcbf090" := rfl
example : hashesSha256 = "ea0b33ecd10ca8d7cbfc0b8470c0806723da8e64728bce5c195e28d24a477c1f" := rfl

end I3.Props.C20KeccakGen
