/-
  I3.Props.C11GenIface — C11 for `Element.SetInterface` (both fields), about the GENERATED code.

  `SetInterface(i1 interface{})` is one type switch; T6 regenerates one Lean definition per case
  (`ffl_Element_SetInterface_case_<type>` / `…_default`, I3/Gen/GoFFLimb.lean, GoFFGLimb.lean) — the dynamic dispatch on the
  type is the Go runtime's.  For every dynamic type the switch accepts, for EVERY value of that type and every
  destination: no error, the result is the final receiver, it is canonical, and its value is the residue of the
  integer / byte string / decimal string / element handed over.  Every other dynamic type reaches the default clause:
  an error, and the destination is left as it was.

  `SetInterface(int)` goes through the decimal rendering (`strconv.Itoa` = `toString`), `SetInterface(string)` accepts
  what `SetString` accepts and panics (`Go.panic`) otherwise, as `SetString` does.
-/
import I3.Props.C11Gen

set_option maxRecDepth 100000

namespace I3.Props.C11GenIface
open I3 I3.Gen.Go I3.Model.FF I3.Props.C11Gen

/-- shape of a case `return z.Setter(c1), nil` for ANY setter `F` (a function variable: the kernel never unfolds
    the real setter while checking this) -/
theorem case_shape {α : Type} (F : List Nat → α → List Nat × List Nat) (z : List Nat) (c : α) :
    (match F z c with
      | (r_1, m_2) =>
        have z := m_2
        (r_1, (default : Option String), z)) = ((F z c).1, none, (F z c).2) := rfl

/-- the regenerated `[]byte` case is `SetBytes` (unfolded at function level, the callee generalised before any
    definitional step — `SetBytes` is too deep for the kernel to evaluate on an open buffer) -/
theorem ff_case_bytes_eq (z : List Nat) (bs : List UInt8) :
    ffl_Element_SetInterface_case_slice_byte z bs =
      ((ffl_Element_SetBytes z bs).1, none, (ffl_Element_SetBytes z bs).2) := by
  have hf := @rfl _ ffl_Element_SetInterface_case_slice_byte
  conv at hf => rhs; delta ffl_Element_SetInterface_case_slice_byte
  rw [hf]
  clear hf
  generalize ffl_Element_SetBytes = F
  as_aux_lemma => exact case_shape F z bs

/-! ## /repo/ff -/

/-- shape of every accepting case: (result, no error, final receiver) with result = receiver -/
def Accepted (r : List Nat × Option String × List Nat) (value : Int) : Prop :=
  r.2.1 = none ∧ r.1 = r.2.2 ∧ CanonFF r.1 ∧ ffVal r.1 = value

theorem ff_SetInterface_uint64 (z : List Nat) {v : Nat} (hv : v < 2 ^ 64) :
    Accepted (ffl_Element_SetInterface_case_uint64 z v) (v : Int) :=
  have h := ff_SetUint64_correct z hv
  ⟨rfl, h.1, h.2.1, h.2.2⟩

theorem ff_SetInterface_int {z : List Nat} (hz : z.length = 4) (v : Int) :
    Accepted (ffl_Element_SetInterface_case_int z v) (v % (q : Int)) :=
  have h := ff_SetString_correct hz v
  ⟨rfl, h.1, h.2.1, h.2.2⟩

theorem ff_SetInterface_string {z : List Nat} (hz : z.length = 4) {s : String} {v : Int}
    (hs : Go.big.setString s 10 = (v, true)) :
    Accepted (ffl_Element_SetInterface_case_string z s) (v % (q : Int)) :=
  have h := ff_SetString_accepted hz hs
  ⟨rfl, h.1, h.2.1, h.2.2⟩

theorem ff_SetInterface_bigIntPtr {z : List Nat} (hz : z.length = 4) (v : Int) :
    Accepted (ffl_Element_SetInterface_case_ptr_big_Int z v) (v % (q : Int)) :=
  have h := ff_SetBigInt_correct hz v
  ⟨rfl, h.1, h.2.1, h.2.2⟩

theorem ff_SetInterface_bigInt {z : List Nat} (hz : z.length = 4) (v : Int) :
    Accepted (ffl_Element_SetInterface_case_big_Int z v) (v % (q : Int)) :=
  have h := ff_SetBigInt_correct hz v
  ⟨rfl, h.1, h.2.1, h.2.2⟩

theorem ff_SetInterface_bytes {z : List Nat} (hz : z.length = 4) (bs : List UInt8) :
    Accepted (ffl_Element_SetInterface_case_slice_byte z bs) ((beToNat bs % q : Nat) : Int) := by
  have h := ff_SetBytes_correct hz bs
  rw [ff_case_bytes_eq]
  generalize ffl_Element_SetBytes z bs = p at h ⊢
  obtain ⟨a, b⟩ := p
  exact ⟨rfl, h.1, h.2.1, h.2.2⟩

/-- an element by value or by pointer: copied limb for limb -/
theorem ff_SetInterface_element {z l : List Nat} (hz : z.length = 4) (hl : l.length = 4) :
    ffl_Element_SetInterface_case_ff_Element z l = (l, none, l) ∧
      ffl_Element_SetInterface_case_ptr_ff_Element z l = (l, none, l) := by
  have h := ff_Set_correct hz hl
  unfold ffl_Element_SetInterface_case_ff_Element ffl_Element_SetInterface_case_ptr_ff_Element
  rw [h]
  exact ⟨rfl, rfl⟩

/-- every other dynamic type: an error naming the type, the destination untouched, no element returned -/
theorem ff_SetInterface_default (z : List Nat) (ty : String) :
    ffl_Element_SetInterface_default z ty = (default, some ("can't set ff.Element from type " ++ ty), z) := rfl

/-! ## /repo/ffg -/

def AcceptedG (r : List Nat × Option String × List Nat) (value : Int) : Prop :=
  r.2.1 = none ∧ r.1 = r.2.2 ∧ CanonFFG r.1 ∧ ffgVal r.1 = value

theorem ffg_SetInterface_int {z : List Nat} (hz : z.length = 1) (v : Int) :
    AcceptedG (ffgl_Element_SetInterface_case_int z v) (v % (gp : Int)) :=
  have h := ffg_SetString_correct hz v
  ⟨rfl, h.1, h.2.1, h.2.2⟩

theorem ffg_SetInterface_string {z : List Nat} (hz : z.length = 1) {s : String} {v : Int}
    (hs : Go.big.setString s 10 = (v, true)) :
    AcceptedG (ffgl_Element_SetInterface_case_string z s) (v % (gp : Int)) :=
  have h := ffg_SetString_accepted hz hs
  ⟨rfl, h.1, h.2.1, h.2.2⟩

theorem ffg_SetInterface_bigIntPtr {z : List Nat} (hz : z.length = 1) (v : Int) :
    AcceptedG (ffgl_Element_SetInterface_case_ptr_big_Int z v) (v % (gp : Int)) :=
  have h := ffg_SetBigInt_correct hz v
  ⟨rfl, h.1, h.2.1, h.2.2⟩

theorem ffg_SetInterface_bigInt {z : List Nat} (hz : z.length = 1) (v : Int) :
    AcceptedG (ffgl_Element_SetInterface_case_big_Int z v) (v % (gp : Int)) :=
  have h := ffg_SetBigInt_correct hz v
  ⟨rfl, h.1, h.2.1, h.2.2⟩

theorem ffg_SetInterface_default (z : List Nat) (ty : String) :
    ffgl_Element_SetInterface_default z ty = (default, some ("can't set ffg.Element from type " ++ ty), z) := rfl

/-- unfold the case `f` at function level, generalise its setter `g` to a function variable, close by `rfl` in an
    auxiliary lemma (so that the kernel never evaluates the real setter) -/
local macro "case_eq " f:ident g:ident : tactic =>
  `(tactic| (have hf := @rfl _ $f; conv at hf => rhs; delta $f
             rw [hf]; clear hf; generalize $g = F; as_aux_lemma => rfl))

/-- the cases are the setters: by definition of the regenerated code -/
theorem ff_case_uint64_eq (z : List Nat) (v : Nat) : ffl_Element_SetInterface_case_uint64 z v =
    ((ffl_Element_SetUint64 z v).1, none, (ffl_Element_SetUint64 z v).2) := by
  case_eq ffl_Element_SetInterface_case_uint64 ffl_Element_SetUint64
theorem ff_case_int_eq (z : List Nat) (v : Int) : ffl_Element_SetInterface_case_int z v =
    ((ffl_Element_SetString z (toString v)).1, none, (ffl_Element_SetString z (toString v)).2) := by
  case_eq ffl_Element_SetInterface_case_int ffl_Element_SetString
theorem ff_case_string_eq (z : List Nat) (t : String) : ffl_Element_SetInterface_case_string z t =
    ((ffl_Element_SetString z t).1, none, (ffl_Element_SetString z t).2) := by
  case_eq ffl_Element_SetInterface_case_string ffl_Element_SetString
theorem ff_case_bigIntPtr_eq (z : List Nat) (v : Int) : ffl_Element_SetInterface_case_ptr_big_Int z v =
    ((ffl_Element_SetBigInt z v).1, none, (ffl_Element_SetBigInt z v).2) := by
  case_eq ffl_Element_SetInterface_case_ptr_big_Int ffl_Element_SetBigInt
theorem ff_case_bigInt_eq (z : List Nat) (v : Int) : ffl_Element_SetInterface_case_big_Int z v =
    ((ffl_Element_SetBigInt z v).1, none, (ffl_Element_SetBigInt z v).2) := by
  case_eq ffl_Element_SetInterface_case_big_Int ffl_Element_SetBigInt
theorem ff_case_element_eq (z l : List Nat) : ffl_Element_SetInterface_case_ff_Element z l =
    ((ffl_Element_Set z l).1, none, (ffl_Element_Set z l).2) := by
  case_eq ffl_Element_SetInterface_case_ff_Element ffl_Element_Set
theorem ffg_case_bytes_eq (z : List Nat) (bs : List UInt8) : ffgl_Element_SetInterface_case_slice_byte z bs =
    ((ffgl_Element_SetBytes z bs).1, none, (ffgl_Element_SetBytes z bs).2) := by
  case_eq ffgl_Element_SetInterface_case_slice_byte ffgl_Element_SetBytes
theorem ffg_case_uint64_eq (z : List Nat) (v : Nat) : ffgl_Element_SetInterface_case_uint64 z v =
    ((ffgl_Element_SetUint64 z v).1, none, (ffgl_Element_SetUint64 z v).2) := by
  case_eq ffgl_Element_SetInterface_case_uint64 ffgl_Element_SetUint64

/-- non-vacuity: `SetInterface(int(-5))` on a stale destination gives `q - 5` -/
example : Accepted (ffl_Element_SetInterface_case_int [1, 2, 3, 4] (-5)) ((-5 : Int) % (q : Int)) :=
  ff_SetInterface_int rfl (-5)

end I3.Props.C11GenIface
