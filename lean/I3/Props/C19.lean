/-
  I3.Props.C19 — receiver contract at model level: whenever the operation succeeds, the receiver
  after the call equals the returned value, for every input, every previous receiver content and
  when the argument is the receiver itself.  (The models are tied to the Go methods by the
  correspondence check, which reads the receiver after every call, with fresh, dirty and
  self-aliased receivers.)
-/
import I3.Model.Receiver
namespace I3.Props.C19
open I3.Model I3.Model.BabyJub I3.Model.EdDSA I3.Model.Receiver

theorem mul_receiver (k : Consts) (recv : APoint) (s : Int) (q : APoint) :
    (pointMul k recv s q).1 = (pointMul k recv s q).2 := rfl

/-- argument ≡ receiver (`p.Mul(s, p)`): the result is still that of multiplying the ORIGINAL point. -/
theorem mul_receiver_self (k : Consts) (s : Int) (p : APoint) :
    (pointMul k p s p).1 = (pointMul k p s p).2 ∧ (pointMul k p s p).2 = mul k s p := ⟨rfl, rfl⟩

theorem set_receiver (recv c : APoint) : (pointSet recv c).1 = (pointSet recv c).2 ∧ (pointSet recv c).2 = c := ⟨rfl, rfl⟩
theorem set_receiver_self (p : APoint) : (pointSet p p).1 = p := rfl

theorem decompress_receiver (k : Consts) (sqrtFn : Nat → Option Nat) (recv : APoint) (b : Bytes) (p : APoint)
    (h : (pointDecompress k sqrtFn recv b).2 = .ok p) : (pointDecompress k sqrtFn recv b).1 = p := by
  unfold pointDecompress at *
  split at h <;> simp_all

/-- a failing decompression stores nothing. -/
theorem decompress_receiver_error (k : Consts) (sqrtFn : Nat → Option Nat) (recv : APoint) (b : Bytes) (e : BabyJub.Err)
    (h : (pointDecompress k sqrtFn recv b).2 = .error e) : (pointDecompress k sqrtFn recv b).1 = recv := by
  unfold pointDecompress at *
  split at h <;> simp_all

theorem sigDecompress_receiver (k : Consts) (sqrtFn : Nat → Option Nat) (recv : Sig) (b : Bytes) (r : Sig × Sig)
    (h : sigDecompressRecv k sqrtFn recv b = .ok r) : r.1 = r.2 ∧ sigDecompress k sqrtFn b = .ok r.2 := by
  unfold sigDecompressRecv at h
  split at h
  · next s hs => cases h; exact ⟨rfl, hs⟩
  · cases h

-- non-vacuity: a concrete successful call (identity point encoding) and a failing one
example : (pointSet (7, 8) (1, 2)).1 = (1, 2) := rfl

end I3.Props.C19
