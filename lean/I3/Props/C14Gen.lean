/-
  I3.Props.C14Gen — signatures are not malleable through `S`: the headline theorems of I3.Props.C14
  restated about the definitions GENERATED from /repo/babyjub/eddsa.go by the source translator T6
  (`babyjub_PublicKey_VerifyPoseidon`, `babyjub_PublicKey_VerifyMimc7`, `babyjub_Signature_Compress`,
  `babyjub_Point_Mul`), obtained from the C14 theorems through the bridge lemmas of
  I3.Lemmas.GoBridgeEdDSA (`generated = model` for EVERY public key, message and signature).

  Conventions of the translation: `pk.VerifyPoseidon(msg, sig)` is
  `babyjub_PublicKey_VerifyPoseidon pk msg (R8, S) : Option String`; `none` is a nil error,
  `some "ErrSOutOfRange"` the package-level error variable of that name.  `l` is the order of the base
  point (`SubOrder`).

  The theorems of sections 1–3 hold for ARBITRARY integer pairs `a`, `r8` (no curve-membership
  hypothesis) and every integer message — in particular for messages and coordinates outside the
  field, for which the hash would fail: the range check comes first.
-/
import I3.Props.C14
import I3.Lemmas.GoBridgeEdDSA

set_option maxRecDepth 100000

namespace I3.Props.C14Gen

open I3 I3.Spec I3.Spec.BJJ I3.Gen.Go I3.GoBridge

/-- the `SubOrder` the generated code compares with is the prime `l` -/
theorem subOrder_eq : I3.Go.Ext.babyjub_SubOrder = (I3.l : ℤ) := by
  rw [babyjub_SubOrder_eq, C14.subOrder_eq]

/-! ## 1. the range check comes first -/

/-- **a negative `S` or `S ≥ l` is rejected with `ErrSOutOfRange`** by both generated verifiers, for
every public key, message and `R8` — no other hypothesis: nothing else is looked at before. -/
theorem verify_S_out_of_range (a r8 : ℤ × ℤ) (msg S : ℤ) (h : S < 0 ∨ (I3.l : ℤ) ≤ S) :
    babyjub_PublicKey_VerifyPoseidon a msg (r8, S) = some "ErrSOutOfRange" ∧
      babyjub_PublicKey_VerifyMimc7 a msg (r8, S) = some "ErrSOutOfRange" :=
  ⟨isEdDSA_poseidon.verify_S_out_of_range a r8 msg S h,
    isEdDSA_mimc7.verify_S_out_of_range a r8 msg S h⟩

/-- conversely `ErrSOutOfRange` is returned only then -/
theorem verify_S_out_of_range_iff (a r8 : ℤ × ℤ) (msg S : ℤ) :
    (babyjub_PublicKey_VerifyPoseidon a msg (r8, S) = some "ErrSOutOfRange" ↔
        (S < 0 ∨ (I3.l : ℤ) ≤ S)) ∧
      (babyjub_PublicKey_VerifyMimc7 a msg (r8, S) = some "ErrSOutOfRange" ↔
        (S < 0 ∨ (I3.l : ℤ) ≤ S)) :=
  ⟨isEdDSA_poseidon.verify_S_out_of_range_iff a r8 msg S,
    isEdDSA_mimc7.verify_S_out_of_range_iff a r8 msg S⟩

/-- an accepted signature has `0 ≤ S < l` -/
theorem verify_ok_S_range (a r8 : ℤ × ℤ) (msg S : ℤ) :
    (babyjub_PublicKey_VerifyPoseidon a msg (r8, S) = none → 0 ≤ S ∧ S < (I3.l : ℤ)) ∧
      (babyjub_PublicKey_VerifyMimc7 a msg (r8, S) = none → 0 ≤ S ∧ S < (I3.l : ℤ)) :=
  ⟨isEdDSA_poseidon.verify_ok_S_range a r8 msg S, isEdDSA_mimc7.verify_ok_S_range a r8 msg S⟩

/-! ## 2. at most one `S` -/

/-- **At most one `S` per `(A, msg, R8)`** (Poseidon): two accepted signatures with the same public
key, message and `R8` have the same `S`.  Holds for arbitrary integer pairs `a`, `r8`. -/
theorem verifyPoseidon_S_unique (a r8 : ℤ × ℤ) (msg S S' : ℤ)
    (h : babyjub_PublicKey_VerifyPoseidon a msg (r8, S) = none)
    (h' : babyjub_PublicKey_VerifyPoseidon a msg (r8, S') = none) : S = S' :=
  isEdDSA_poseidon.verify_S_unique a r8 msg S S' h h'

/-- **At most one `S` per `(A, msg, R8)`** (MiMC7) -/
theorem verifyMimc7_S_unique (a r8 : ℤ × ℤ) (msg S S' : ℤ)
    (h : babyjub_PublicKey_VerifyMimc7 a msg (r8, S) = none)
    (h' : babyjub_PublicKey_VerifyMimc7 a msg (r8, S') = none) : S = S' :=
  isEdDSA_mimc7.verify_S_unique a r8 msg S S' h h'

/-- the form quoted in the property: curve points in canonical coordinates -/
theorem verify_S_unique_points (A R8 : curve.Point) (msg S S' : ℤ) :
    (babyjub_PublicKey_VerifyPoseidon (coords A) msg (coords R8, S) = none →
        babyjub_PublicKey_VerifyPoseidon (coords A) msg (coords R8, S') = none → S = S') ∧
      (babyjub_PublicKey_VerifyMimc7 (coords A) msg (coords R8, S) = none →
        babyjub_PublicKey_VerifyMimc7 (coords A) msg (coords R8, S') = none → S = S') :=
  ⟨verifyPoseidon_S_unique _ _ msg S S', verifyMimc7_S_unique _ _ msg S S'⟩

/-- hence at most one 64-byte compressed signature (generated `Signature.Compress`) per
`(A, msg, R8)` -/
theorem compressed_sig_unique (a r8 : ℤ × ℤ) (msg S S' : ℤ) :
    (babyjub_PublicKey_VerifyPoseidon a msg (r8, S) = none →
        babyjub_PublicKey_VerifyPoseidon a msg (r8, S') = none →
        babyjub_Signature_Compress (r8, S) = babyjub_Signature_Compress (r8, S')) ∧
      (babyjub_PublicKey_VerifyMimc7 a msg (r8, S) = none →
        babyjub_PublicKey_VerifyMimc7 a msg (r8, S') = none →
        babyjub_Signature_Compress (r8, S) = babyjub_Signature_Compress (r8, S')) :=
  ⟨fun h h' => by rw [verifyPoseidon_S_unique a r8 msg S S' h h'],
    fun h h' => by rw [verifyMimc7_S_unique a r8 msg S S' h h']⟩

/-! ## 3. no malleability by adding multiples of `l` -/

/-- **`S + k l` never verifies**: for `S` in `[0, l)` and every `k ≠ 0`, `S + k l` is rejected with
`ErrSOutOfRange` by both generated verifiers — whether or not `S` itself verifies. -/
theorem verify_S_shift_rejected (a r8 : ℤ × ℤ) (msg S k : ℤ) (hS0 : 0 ≤ S) (hSl : S < (I3.l : ℤ))
    (hk : k ≠ 0) :
    babyjub_PublicKey_VerifyPoseidon a msg (r8, S + k * (I3.l : ℤ)) = some "ErrSOutOfRange" ∧
      babyjub_PublicKey_VerifyMimc7 a msg (r8, S + k * (I3.l : ℤ)) = some "ErrSOutOfRange" :=
  ⟨isEdDSA_poseidon.verify_S_shift_rejected a r8 msg S k hS0 hSl hk,
    isEdDSA_mimc7.verify_S_shift_rejected a r8 msg S k hS0 hSl hk⟩

/-- the check is NECESSARY: the generated group computation `NewPoint().Mul(S, B8)` (the left-hand
side of the verification equation) cannot tell `S` from `S + k l`, since `l • B8 = 0`.  Without the
range check every valid signature would have the malleated twins `S + l`, `S + 2 l`, … -/
theorem left_side_blind_to_shift (recv : ℤ × ℤ) (S : ℤ) (k : ℕ) (hS0 : 0 ≤ S) :
    babyjub_Point_Mul recv (S + k * (I3.l : ℤ)) I3.Go.Ext.babyjub_B8 =
      babyjub_Point_Mul recv S I3.Go.Ext.babyjub_B8 := by
  have hk : (0 : ℤ) ≤ S + k * (I3.l : ℤ) := by positivity
  rw [babyjub_Point_Mul_eq, babyjub_Point_Mul_eq, babyjub_B8_eq, I3.Lemmas.EdDSA.mul_b8_int hk,
    I3.Lemmas.EdDSA.mul_b8_int hS0, C14.equation_blind_to_shift S k hS0]

/-! ## 4. non-vacuity -/

/-- the malleated twin `S + l` of the Go test vector of `TestSignVerifyPoseidon` (which satisfies
the group equation) is rejected -/
example : babyjub_PublicKey_VerifyPoseidon
    (13277427435165878497778222415993513565335242147425444199013288855685581939618,
     13622229784656158136036771217484571176836296686641868549125388198837476602820)
    42649378395939397566720
    ((11384336176656855268977457483345535180380036354188103142384839473266348197733,
      15383486972088797283337779941324724402501462225528836549661220478783371668959),
     1672775540645840396591609181675628451599263765380031905495115170613215233181 + (I3.l : ℤ)) =
      some "ErrSOutOfRange" :=
  (verify_S_out_of_range _ _ _ _ (Or.inr (by decide))).1

/-- kernel evaluation of the GENERATED verifiers: `S = -1`, `S = l`, `S = l - 1 + 3 l`; garbage
points, a message outside the field — `ErrSOutOfRange` comes first -/
example : babyjub_PublicKey_VerifyMimc7 (0, 1) 0 ((0, 1), -1) = some "ErrSOutOfRange" ∧
    babyjub_PublicKey_VerifyMimc7 (0, 1) 0 ((0, 1), (I3.l : ℤ)) = some "ErrSOutOfRange" ∧
    babyjub_PublicKey_VerifyPoseidon (7, 7) (-3) ((-1, 0), (I3.l : ℤ) - 1 + 3 * (I3.l : ℤ)) =
      some "ErrSOutOfRange" := by
  decide +kernel

/-- `l - 1` is in range: with the message `-3` the next check (the hash) reports its error -/
example : babyjub_PublicKey_VerifyPoseidon (7, 7) (-3) ((-1, 0), (I3.l : ℤ) - 1) =
    some "inputs values not inside Finite Field" := by
  decide +kernel

example (recv : ℤ × ℤ) : babyjub_Point_Mul recv ((I3.l : ℤ) - 1 + 3 * (I3.l : ℤ)) I3.Go.Ext.babyjub_B8 =
    babyjub_Point_Mul recv ((I3.l : ℤ) - 1) I3.Go.Ext.babyjub_B8 :=
  left_side_blind_to_shift recv _ 3 (by decide)

end I3.Props.C14Gen
