/-
  I3.Props.C01W10 — property C01 at width t = 10 (R_F = 8, R_P = 60).
  `tables_lit_10`: the kernel evaluates the relation checker `PoseidonCheck.checkAll` on the tables
  `Gen.PT10.*` (REGENERATED from /repo/poseidon/constants.go on every run) against the literal output of
  the reference Grain generator (`Spec.GrainLit.rc_10`, `mds_10`, proved equal to the generator's output in
  I3.Spec.GrainW10); the witnesses are proposed by `computeWitnesses` inside the same evaluation.
  `tables_ok_10`: the same statement about the generator itself.
  `width_10`: hence (by `checkAll_sound`) the optimised Go loop equals the textbook Poseidon permutation
  on EVERY state of width 10.
-/
import I3.Exec.PoseidonCheck
import I3.Gen.PT10
import I3.Spec.GrainW10
import I3.Lemmas.PoseidonRefine
set_option maxRecDepth 1000000
namespace I3.Props.C01
open I3

theorem tables_lit_10 :
    PoseidonCheck.checkAll q 10 60 Spec.GrainLit.rc_10 Spec.GrainLit.mds_10
      ⟨Gen.PT10.C, Gen.PT10.S, Gen.PT10.M, Gen.PT10.P⟩
      (PoseidonCheck.computeWitnesses q 10 60 Spec.GrainLit.rc_10 Spec.GrainLit.mds_10
        ⟨Gen.PT10.C, Gen.PT10.S, Gen.PT10.M, Gen.PT10.P⟩) = true := by
  decide +kernel

theorem tables_ok_10 :
    PoseidonCheck.checkAll q 10 60 (Grain.bn254Params 10).rc (Grain.mds q (Grain.bn254Params 10))
      ⟨Gen.PT10.C, Gen.PT10.S, Gen.PT10.M, Gen.PT10.P⟩
      (PoseidonCheck.computeWitnesses q 10 60 (Grain.bn254Params 10).rc
        (Grain.mds q (Grain.bn254Params 10)) ⟨Gen.PT10.C, Gen.PT10.S, Gen.PT10.M, Gen.PT10.P⟩) = true := by
  rw [Spec.GrainLit.grain_10.1, Spec.GrainLit.grain_10.2]
  exact tables_lit_10

theorem width_10 (st : List Nat) (hst : st.length = 10) :
    Model.Poseidon.permute q 5 ⟨Gen.PT10.C, Gen.PT10.S, Gen.PT10.M, Gen.PT10.P⟩ 10 60 st =
      Hades.poseidonBN254 (Grain.bn254Params 10) st :=
  PoseidonRefine.width_of_check 10 60 (by decide) _ _ tables_ok_10 st hst

end I3.Props.C01
