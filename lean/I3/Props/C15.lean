/-
  I3.Props.C15 — key and signature encodings are mutually inverse and reject malformed input.
  Property theorems about the executable models in I3.Exec.Bytes, I3.Model.BabyJub, I3.Model.EdDSA and
  I3.Model.Codec; helper lemmas live in I3.Lemmas.Bytes.  Each theorem is followed by an `example`
  instantiating it (or its hypotheses) on concrete, non-trivial values.
-/
import I3.Lemmas.Bytes
import I3.Model.Instances
namespace I3.Props.C15
open I3 I3.Lemmas.Bytes
open I3.Model.BabyJub (Consts APoint bigIntLEBytes packSignY unpackSignY compress decompress)
open I3.Model.EdDSA (Sig sigCompress sigDecompress)
open I3.Model.Codec

attribute [local instance] exceptDecEq

-- The examples use the production instance shared with the driver: `Inst.bjConsts` (BabyJubJub over
-- BN254, constants regenerated from /repo) and `Inst.sqrtQ` (reference modular square root).

/-! ## 1–2. hexadecimal helpers -/

theorem hex_roundtrip (bs : Bytes) : hexDecodeChars (hexEncodeChars bs) = (bs, none) :=
  hexDecodeChars_hexEncodeChars bs

example : hexDecodeChars (hexEncodeChars [0x00, 0x7f, 0x80, 0xff, 0x0a]) =
    ([0x00, 0x7f, 0x80, 0xff, 0x0a], none) := hex_roundtrip _
example : hexEncodeChars [0x00, 0x7f, 0x80, 0xff, 0x0a] = "007f80ff0a".toList := by decide

theorem hexDecode_hexEncode0x (bs : Bytes) : hexDecode (hexEncode0x bs) = .ok bs := by
  simp only [hexDecode, hexEncode0x, stripPrefix0x_0x, hexDecodeChars_hexEncodeChars]

theorem hexDecode_hexEncode (bs : Bytes) : hexDecode (hexEncodeChars bs) = .ok bs := by
  simp only [hexDecode, stripPrefix0x_hexEncodeChars, hexDecodeChars_hexEncodeChars]

example : hexEncode0x [0x0f, 0xa5] = "0x0fa5".toList := by decide
example : hexDecode "0x0fa5".toList = .ok [0x0f, 0xa5] := by decide
example : hexDecode "0FA5".toList = .ok [0x0f, 0xa5] := by decide
example : hexDecode "0x0x0fa5".toList = .error .hexBadChar := by decide
example : hexDecode "0fa".toList = .error .hexOddLen := by decide

/-! ## 3. `HexDecodeInto`: exact length, hexadecimal digits only -/

theorem hexDecodeInto_ok_iff (n : Nat) (h : List Char) (b : Bytes) :
    hexDecodeInto n h = .ok b ↔
      ((stripPrefix0x h).length = 2 * n ∧ (∀ c ∈ stripPrefix0x h, (hexVal c).isSome) ∧
        hexDecodeChars (stripPrefix0x h) = (b, none)) := by
  unfold hexDecodeInto
  generalize stripPrefix0x h = s
  constructor
  · intro hok
    simp only at hok
    split at hok
    · cases hok
    · next hlen =>
      split at hok
      · next r hr =>
        split at hok
        · cases hok
        · next hrl =>
          cases hok
          have := hexDecodeChars_ok hr
          exact ⟨by omega, this.2, hr⟩
      · cases hok
  · rintro ⟨hlen, -, hdec⟩
    have := (hexDecodeChars_ok hdec).1
    have h1 : ¬ s.length / 2 ≠ n := by omega
    have h2 : ¬ b.length ≠ n := by omega
    simp only [h1, hdec, h2, if_false]

theorem hexDecodeInto_length {n : Nat} {h : List Char} {b : Bytes}
    (hok : hexDecodeInto n h = .ok b) : b.length = n := by
  obtain ⟨hlen, -, hdec⟩ := (hexDecodeInto_ok_iff n h b).1 hok
  have := (hexDecodeChars_ok hdec).1
  omega

theorem hexDecodeInto_roundtrip (bs : Bytes) :
    hexDecodeInto bs.length (hexEncodeChars bs) = .ok bs := by
  rw [hexDecodeInto_ok_iff, stripPrefix0x_hexEncodeChars]
  have := hexDecodeChars_hexEncodeChars bs
  exact ⟨hexEncodeChars_length bs, (hexDecodeChars_ok this).2, this⟩

theorem hexDecodeInto_roundtrip0x (bs : Bytes) :
    hexDecodeInto bs.length ('0' :: 'x' :: hexEncodeChars bs) = .ok bs := by
  rw [hexDecodeInto_ok_iff, stripPrefix0x_0x]
  have := hexDecodeChars_hexEncodeChars bs
  exact ⟨hexEncodeChars_length bs, (hexDecodeChars_ok this).2, this⟩

/-- the three ways to fail, in the order the code checks them. -/
theorem hexDecodeInto_wrong_len (n : Nat) (h : List Char)
    (hl : (stripPrefix0x h).length / 2 ≠ n) : hexDecodeInto n h = .error .hexBadSize := by
  simp only [hexDecodeInto, hl, ne_eq, not_false_eq_true, if_true]

example : hexDecodeInto 2 "0x0fa5".toList = .ok [0x0f, 0xa5] := by decide
example : hexDecodeInto 2 "0fa5".toList = .ok [0x0f, 0xa5] := by decide
example : hexDecodeInto 2 "0fa5b".toList = .error .hexOddLen := by decide
example : hexDecodeInto 2 "0fa5bb".toList = .error .hexBadSize := by decide
example : hexDecodeInto 2 "0fa".toList = .error .hexBadSize := by decide
example : hexDecodeInto 2 "0fag".toList = .error .hexBadChar := by decide
example : hexDecodeInto 2 "0x0x0f".toList = .error .hexBadChar := by decide
example : hexDecodeInto 3 (hexEncodeChars [1, 2, 255]) = .ok [1, 2, 255] :=
  hexDecodeInto_roundtrip [1, 2, 255]
example : hexDecodeInto 3 ('0' :: 'x' :: hexEncodeChars [1, 2, 255]) = .ok [1, 2, 255] :=
  hexDecodeInto_roundtrip0x [1, 2, 255]

/-! ## 4. little-endian helpers -/

theorem natToLE_length (n v : Nat) : (natToLE n v).length = n := Lemmas.Bytes.natToLE_length n v

theorem leToNat_natToLE (n v : Nat) : leToNat (natToLE n v) = v % 256 ^ n :=
  Lemmas.Bytes.leToNat_natToLE n v

theorem leToNat_lt (bs : Bytes) : leToNat bs < 256 ^ bs.length := Lemmas.Bytes.leToNat_lt bs

theorem natToLE_leToNat (bs : Bytes) : natToLE bs.length (leToNat bs) = bs :=
  Lemmas.Bytes.natToLE_leToNat bs

theorem le_roundtrip (v : Nat) (hv : v < 2 ^ 256) : leToNat (natToLE 32 v) = v := by
  rw [Lemmas.Bytes.leToNat_natToLE, pow_256_32]; exact Nat.mod_eq_of_lt hv

theorem le_roundtrip' (bs : Bytes) (h : bs.length = 32) : natToLE 32 (leToNat bs) = bs := by
  rw [← h]; exact Lemmas.Bytes.natToLE_leToNat bs

theorem setBigIntFromLEBytes_bigIntLEBytes (v : Int) (h0 : 0 ≤ v) (h : v < 2 ^ 256) :
    (setBigIntFromLEBytes (bigIntLEBytes v) : Int) = v := by
  unfold setBigIntFromLEBytes bigIntLEBytes
  rw [le_roundtrip _ (by omega)]
  omega

example : leToNat (natToLE 32 (2 ^ 256 - 1)) = 2 ^ 256 - 1 := le_roundtrip _ (by decide)
example : leToNat (natToLE 32 (2 ^ 256 + 5)) = 5 := by decide   -- the bound is needed
example : natToLE 3 0x010203 = [3, 2, 1] := by decide
example : (setBigIntFromLEBytes (bigIntLEBytes 0x0102030405) : Int) = 0x0102030405 :=
  setBigIntFromLEBytes_bigIntLEBytes _ (by decide) (by decide)
example : (setBigIntFromLEBytes (bigIntLEBytes (-7)) : Int) = 7 := by decide  -- `0 ≤ v` is needed

/-! ## 5. `SwapEndianness` -/

theorem swap_involutive (bs : Bytes) : swapEndianness (swapEndianness bs) = bs := by
  simp only [swapEndianness, List.reverse_reverse]

theorem swap_length (bs : Bytes) : (swapEndianness bs).length = bs.length := by
  simp only [swapEndianness, List.length_reverse]

example : swapEndianness [1, 2, 3] = [3, 2, 1] := by decide

/-! ## 6. sign bit packing -/

theorem packSignY_length (sign : Bool) (y : Int) : (packSignY sign y).length = 32 := by
  unfold packSignY bigIntLEBytes
  cases sign
  · simp [Lemmas.Bytes.natToLE_length]
  · simp [Lemmas.Bytes.natToLE_length]

theorem unpackSignY_packSignY (sign : Bool) (y : Int) (h0 : 0 ≤ y) (h : y < 2 ^ 255) :
    unpackSignY (packSignY sign y) = (sign, y.toNat) := by
  have hn : y.natAbs < 2 ^ 255 := by omega
  have hy : y.toNat = y.natAbs := by omega
  rw [hy]
  unfold packSignY unpackSignY bigIntLEBytes
  generalize y.natAbs = v at hn ⊢
  have hsplit : natToLE 32 v = _ := natToLE_succ_last 31 v
  have hl31 := Lemmas.Bytes.natToLE_length 31 v
  have hlast : (UInt8.ofNat (v / 256 ^ 31 % 256)).toNat < 128 := by
    rw [UInt8.toNat_ofNat']
    have : v / 256 ^ 31 < 128 := by
      rw [Nat.div_lt_iff_lt_mul (by decide), Nat.mul_comm, pow_256_31_mul_128]; exact hn
    omega
  have hle : leToNat (natToLE 31 v ++ [UInt8.ofNat (v / 256 ^ 31 % 256)]) = v := by
    rw [← hsplit]; exact le_roundtrip v (by omega)
  rw [hsplit]
  generalize UInt8.ofNat (v / 256 ^ 31 % 256) = last at *
  generalize natToLE 31 v = ini at *
  cases sign
  · simp only [Bool.false_eq_true, if_false,
      take_append_left _ _ _ hl31, getD_append_singleton _ _ _ _ hl31, lt128_and80 _ hlast,
      lt128_and7F _ hlast, hle]
  · simp only [if_true,
      take_append_left _ _ _ hl31, getD_append_singleton _ _ _ _ hl31, or80_and80,
      or80_and7F _ hlast, hle]

/-- same statement for a natural `y`. -/
theorem unpackSignY_packSignY_nat (sign : Bool) (y : Nat) (h : y < 2 ^ 255) :
    unpackSignY (packSignY sign (y : Int)) = (sign, y) := by
  have := unpackSignY_packSignY sign (y : Int) (by omega) (by omega)
  simpa using this

theorem unpackSignY_lt (b : Bytes) (hb : b.length = 32) : (unpackSignY b).2 < 2 ^ 255 := by
  unfold unpackSignY
  simp only
  rw [leToNat_append, ← pow_256_31_mul_128]
  have h1 := Lemmas.Bytes.leToNat_lt (b.take 31)
  have h2 : (List.take 31 b).length = 31 := by simp [hb]
  have h3 := and7F_lt (b.getD 31 0)
  rw [h2] at h1 ⊢
  simp only [leToNat, Nat.mul_zero, Nat.add_zero]
  generalize 256 ^ 31 = P at *
  have : P * (b.getD 31 0 &&& 0x7F).toNat ≤ P * 127 := Nat.mul_le_mul_left _ (by omega)
  omega

theorem packSignY_unpackSignY (b : Bytes) (hb : b.length = 32) :
    packSignY (unpackSignY b).1 ((unpackSignY b).2 : Int) = b := by
  have hsplit := take_append_getD b 31 0 hb
  have hl31 : (b.take 31).length = 31 := by simp [hb]
  generalize hlast : b.getD 31 0 = last at *
  generalize hini : b.take 31 = ini at *
  have hl32 : (ini ++ [last &&& 0x7F]).length = 32 := by simp [hl31]
  have hle := le_roundtrip' _ hl32
  cases hs : ((last &&& 0x80) != 0)
  · rw [and80_zero_and7F _ hs, hsplit] at hle
    simp only [packSignY, unpackSignY, bigIntLEBytes, hlast, hini, hs, Int.natAbs_natCast,
      Bool.false_eq_true, if_false, and80_zero_and7F _ hs, hsplit, hle]
  · simp only [packSignY, unpackSignY, bigIntLEBytes, hlast, hini, hs, Int.natAbs_natCast, hle,
      if_true, take_append_left _ _ _ hl31, getD_append_singleton _ _ _ _ hl31,
      and7F_or80 _ hs, hsplit]

example : unpackSignY (packSignY true (2 ^ 255 - 1)) = (true, 2 ^ 255 - 1) := by decide
example : unpackSignY (packSignY true 0x0102) = (true, 0x0102) :=
  unpackSignY_packSignY true 0x0102 (by decide) (by decide)
example : unpackSignY (packSignY false (2 ^ 255)) = (true, 0) := by decide   -- the bound is needed
example : packSignY true 1 = 1 :: List.replicate 30 0 ++ [0x80] := by decide
example : packSignY (unpackSignY (List.replicate 32 0xff)).1 (unpackSignY (List.replicate 32 0xff)).2
    = List.replicate 32 0xff := packSignY_unpackSignY _ (by decide)

/-! ## 7. point and signature compression -/

theorem compress_length (k : Consts) (p : APoint) : (compress k p).length = 32 :=
  packSignY_length _ _

theorem sigCompress_length (k : Consts) (s : Sig) : (sigCompress k s).length = 64 := by
  simp [sigCompress, compress_length, bigIntLEBytes, Lemmas.Bytes.natToLE_length]

theorem sigDecompress_sigCompress (k : Consts) (sqrtFn : Nat → Option Nat) (s : Sig)
    (hpt : decompress k sqrtFn (compress k s.r8) = .ok s.r8) (h0 : 0 ≤ s.s) (h : s.s < 2 ^ 256) :
    sigDecompress k sqrtFn (sigCompress k s) = .ok s := by
  have hl := compress_length k s.r8
  have ht : (compress k s.r8 ++ bigIntLEBytes s.s).take 32 = compress k s.r8 :=
    take_append_left _ _ _ hl
  have hd : (compress k s.r8 ++ bigIntLEBytes s.s).drop 32 = bigIntLEBytes s.s := by
    rw [← hl]; exact List.drop_left
  have hs := setBigIntFromLEBytes_bigIntLEBytes s.s h0 h
  unfold setBigIntFromLEBytes at hs
  simp only [sigDecompress, sigCompress, ht, hd, hpt, hs]

/-- the hypothesis `hpt` (property C06) holds for the production constants at the base point. -/
example : decompress Inst.bjConsts Inst.sqrtQ (compress Inst.bjConsts Inst.bjConsts.b8) = .ok Inst.bjConsts.b8 := by decide +kernel
example : sigDecompress Inst.bjConsts Inst.sqrtQ (sigCompress Inst.bjConsts ⟨Inst.bjConsts.b8, 123456789⟩) =
    .ok ⟨Inst.bjConsts.b8, 123456789⟩ :=
  sigDecompress_sigCompress Inst.bjConsts Inst.sqrtQ ⟨Inst.bjConsts.b8, 123456789⟩ (by decide +kernel) (by decide)
    (by decide)
example : (sigCompress Inst.bjConsts ⟨Inst.bjConsts.b8, 123456789⟩).length = 64 := sigCompress_length _ _

/-! ## 8. text and database forms -/

section
variable (k : Consts) (sqrtFn : Nat → Option Nat)

theorem unmarshalPublicKey_marshalPublicKey (p : APoint)
    (hpt : decompress k sqrtFn (compress k p) = .ok p) :
    unmarshalPublicKey k sqrtFn (marshalPublicKey k p) = .ok p := by
  have := hexDecodeInto_roundtrip (compress k p)
  rw [compress_length] at this
  simp only [unmarshalPublicKey, marshalPublicKey, this, hpt]

theorem unmarshalPublicKey_marshalPublicKey0x (p : APoint)
    (hpt : decompress k sqrtFn (compress k p) = .ok p) :
    unmarshalPublicKey k sqrtFn ('0' :: 'x' :: marshalPublicKey k p) = .ok p := by
  have := hexDecodeInto_roundtrip0x (compress k p)
  rw [compress_length] at this
  simp only [unmarshalPublicKey, marshalPublicKey, this, hpt]

theorem scanPublicKey_compress (p : APoint)
    (hpt : decompress k sqrtFn (compress k p) = .ok p) :
    scanPublicKey k sqrtFn (.bytes (compress k p)) = .ok p := by
  simp [scanPublicKey, scanFixed, compress_length, hpt]

theorem scanSignature_sigCompress (s : Sig)
    (hpt : decompress k sqrtFn (compress k s.r8) = .ok s.r8) (h0 : 0 ≤ s.s) (h : s.s < 2 ^ 256) :
    scanSignature k sqrtFn (.bytes (sigCompress k s)) = .ok s := by
  simp [scanSignature, scanFixed, sigCompress_length, sigDecompress_sigCompress k sqrtFn s hpt h0 h]

theorem decompressSigText_hexEncode (s : Sig)
    (hpt : decompress k sqrtFn (compress k s.r8) = .ok s.r8) (h0 : 0 ≤ s.s) (h : s.s < 2 ^ 256) :
    decompressSigText k sqrtFn (hexEncodeChars (sigCompress k s)) = .ok s := by
  have := hexDecodeInto_roundtrip (sigCompress k s)
  rw [sigCompress_length] at this
  simp only [decompressSigText, this, sigDecompress_sigCompress k sqrtFn s hpt h0 h]

end

example : unmarshalPublicKey Inst.bjConsts Inst.sqrtQ (marshalPublicKey Inst.bjConsts Inst.bjConsts.b8) = .ok Inst.bjConsts.b8 :=
  unmarshalPublicKey_marshalPublicKey _ _ _ (by decide +kernel)
example : scanPublicKey Inst.bjConsts Inst.sqrtQ (.bytes (compress Inst.bjConsts Inst.bjConsts.b8)) = .ok Inst.bjConsts.b8 :=
  scanPublicKey_compress _ _ _ (by decide +kernel)
example : scanSignature Inst.bjConsts Inst.sqrtQ (.bytes (sigCompress Inst.bjConsts ⟨Inst.bjConsts.b8, 2 ^ 256 - 1⟩)) =
    .ok ⟨Inst.bjConsts.b8, 2 ^ 256 - 1⟩ :=
  scanSignature_sigCompress _ _ ⟨Inst.bjConsts.b8, 2 ^ 256 - 1⟩ (by decide +kernel) (by decide) (by decide)
example : decompressSigText Inst.bjConsts Inst.sqrtQ (hexEncodeChars (sigCompress Inst.bjConsts ⟨Inst.bjConsts.b8, 42⟩)) =
    .ok ⟨Inst.bjConsts.b8, 42⟩ :=
  decompressSigText_hexEncode _ _ ⟨Inst.bjConsts.b8, 42⟩ (by decide +kernel) (by decide) (by decide)

/-! ## 9. rejection as decision logic -/

theorem scanFixed_ok_iff (n : Nat) (src : Src) (b : Bytes) :
    scanFixed n src = .ok b ↔ (src = .bytes b ∧ b.length = n) := by
  cases src <;> simp only [scanFixed, reduceCtorEq, false_and]
  case bytes b' =>
    by_cases hl : b'.length = n
    · simp only [hl, ne_eq, not_true_eq_false, if_false, Except.ok.injEq, Src.bytes.injEq]
      constructor
      · rintro rfl; exact ⟨rfl, hl⟩
      · rintro ⟨rfl, -⟩; rfl
    · simp only [ne_eq, hl, not_false_eq_true, if_true, reduceCtorEq, Src.bytes.injEq, false_iff]
      rintro ⟨rfl, h⟩; exact hl h

theorem scanFixed_wrong_type (n : Nat) (src : Src) (h : ∀ b, src ≠ .bytes b) :
    scanFixed n src = .error .scanBadType := by
  cases src <;> first | rfl | exact absurd rfl (h _)

theorem scanFixed_wrong_len (n : Nat) (b : Bytes) (h : b.length ≠ n) :
    scanFixed n (.bytes b) = .error .scanBadLen := by
  simp only [scanFixed, h, ne_eq, not_false_eq_true, if_true]

section
variable (k : Consts) (sqrtFn : Nat → Option Nat)

theorem scanPublicKey_ok_iff (src : Src) (p : APoint) :
    scanPublicKey k sqrtFn src = .ok p ↔
      ∃ b, src = .bytes b ∧ b.length = 32 ∧ decompress k sqrtFn b = .ok p := by
  unfold scanPublicKey
  constructor
  · intro h
    split at h
    · cases h
    · next b hb =>
      obtain ⟨rfl, hl⟩ := (scanFixed_ok_iff 32 src b).1 hb
      refine ⟨b, rfl, hl, ?_⟩
      split at h
      · cases h
      · next p' hp => cases h; exact hp
  · rintro ⟨b, rfl, hl, hd⟩
    have := (scanFixed_ok_iff 32 (.bytes b) b).2 ⟨rfl, hl⟩
    simp only [this, hd]

theorem scanSignature_ok_iff (src : Src) (s : Sig) :
    scanSignature k sqrtFn src = .ok s ↔
      ∃ b, src = .bytes b ∧ b.length = 64 ∧ sigDecompress k sqrtFn b = .ok s := by
  unfold scanSignature
  constructor
  · intro h
    split at h
    · cases h
    · next b hb =>
      obtain ⟨rfl, hl⟩ := (scanFixed_ok_iff 64 src b).1 hb
      exact ⟨b, rfl, hl, h⟩
  · rintro ⟨b, rfl, hl, hd⟩
    have := (scanFixed_ok_iff 64 (.bytes b) b).2 ⟨rfl, hl⟩
    simp only [this, hd]

theorem unmarshalPublicKey_ok_iff (h : List Char) (p : APoint) :
    unmarshalPublicKey k sqrtFn h = .ok p ↔
      ∃ b, hexDecodeInto 32 h = .ok b ∧ decompress k sqrtFn b = .ok p := by
  unfold unmarshalPublicKey
  constructor
  · intro hu
    split at hu
    · cases hu
    · next b hb =>
      refine ⟨b, hb, ?_⟩
      split at hu
      · cases hu
      · next p' hp => cases hu; exact hp
  · rintro ⟨b, hb, hd⟩
    simp only [hb, hd]

theorem decompressSigText_ok_iff (h : List Char) (s : Sig) :
    decompressSigText k sqrtFn h = .ok s ↔
      ∃ b, hexDecodeInto 64 h = .ok b ∧ sigDecompress k sqrtFn b = .ok s := by
  unfold decompressSigText
  constructor
  · intro hu
    split at hu
    · cases hu
    · next b hb => exact ⟨b, hb, hu⟩
  · rintro ⟨b, hb, hd⟩
    simp only [hb, hd]

/-- a point that does not decode is reported as a point error, never accepted. -/
theorem scanPublicKey_bad_point (b : Bytes) (e : Model.BabyJub.Err) (hl : b.length = 32)
    (hd : decompress k sqrtFn b = .error e) :
    scanPublicKey k sqrtFn (.bytes b) = .error (.point e) := by
  have := (scanFixed_ok_iff 32 (.bytes b) b).2 ⟨rfl, hl⟩
  simp only [scanPublicKey, this, hd]

end

example : scanFixed 2 (.bytes [1, 2]) = .ok [1, 2] := (scanFixed_ok_iff _ _ _).2 ⟨rfl, rfl⟩
example : scanFixed 2 (.bytes [1, 2, 3]) = .error .scanBadLen := scanFixed_wrong_len _ _ (by decide)
example : scanFixed 2 (.string ['a', 'b']) = .error .scanBadType :=
  scanFixed_wrong_type _ _ (fun _ h => nomatch h)
example : scanFixed 32 (.array32 (List.replicate 32 0)) = .error .scanBadType := rfl
example : ∃ p, scanPublicKey Inst.bjConsts Inst.sqrtQ (.bytes (compress Inst.bjConsts Inst.bjConsts.b8)) = .ok p :=
  ⟨Inst.bjConsts.b8, (scanPublicKey_ok_iff _ _ _ _).2 ⟨_, rfl, compress_length _ _, by decide +kernel⟩⟩
/-- y = q (not canonical) is rejected. -/
example : scanPublicKey Inst.bjConsts Inst.sqrtQ (.bytes (natToLE 32 Gen.constants_q)) = .error (.point .yTooBig) := by
  decide +kernel
/-- 31 and 33 bytes are rejected, as is a 63-digit text. -/
example : scanPublicKey Inst.bjConsts Inst.sqrtQ (.bytes (natToLE 31 1)) = .error .scanBadLen := by
  decide +kernel
example : scanPublicKey Inst.bjConsts Inst.sqrtQ (.bytes (natToLE 33 1)) = .error .scanBadLen := by
  decide +kernel
example : unmarshalPublicKey Inst.bjConsts Inst.sqrtQ (List.replicate 63 '0') = .error .hexBadSize := by
  decide +kernel
example : unmarshalPublicKey Inst.bjConsts Inst.sqrtQ (List.replicate 65 '0') = .error .hexOddLen := by
  decide +kernel
example : unmarshalPublicKey Inst.bjConsts Inst.sqrtQ (List.replicate 66 '0') = .error .hexBadSize := by
  decide +kernel

end I3.Props.C15
