import I3.Props.C07Pin
#print axioms I3.Props.C07.source_pinned
#print axioms I3.Props.C07.function_set_pinned
