/-
  I3.Audit.C20BlakeStreamGen — axiom audit of the C20 property theorems about the translated dchest/blake512 streaming
  state machine (New / Write / Sum / Size).  Every line must report a subset of {propext, Classical.choice, Quot.sound}.
-/
import I3.Props.C20BlakeStreamGen
#print axioms I3.Props.C20BlakeStreamGen.rel_def
#print axioms I3.Props.C20BlakeStreamGen.rel_h_size
#print axioms I3.Props.C20BlakeStreamGen.new_refines
#print axioms I3.Props.C20BlakeStreamGen.write_refines
#print axioms I3.Props.C20BlakeStreamGen.write_nn
#print axioms I3.Props.C20BlakeStreamGen.sum_refines
#print axioms I3.Props.C20BlakeStreamGen.size_eq
#print axioms I3.Props.C20BlakeStreamGen.go_eq_stream
#print axioms I3.Props.C20BlakeStreamGen.blake512_go_eq_spec
#print axioms I3.Props.C20BlakeStreamGen.blake512_go_eq_spec_append
#print axioms I3.Props.C20BlakeStreamGen.writes_refines
#print axioms I3.Props.C20BlakeStreamGen.go_eq_stream_chunks
#print axioms I3.Props.C20BlakeStreamGen.rel_x_length
#print axioms I3.Props.C20BlakeStreamGen.write_split
#print axioms I3.Props.C20BlakeStreamGen.blake512_go_split_eq_spec
#print axioms I3.Props.C20BlakeStreamGen.blake512_go_chunks_eq_spec
#print axioms I3.Props.C20BlakeStreamGen.model_write_write
#print axioms I3.Props.C20BlakeStreamGen.hasher_eq_go
#print axioms I3.Props.C20BlakeStreamGen.digest_length
