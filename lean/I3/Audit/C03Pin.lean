import I3.Props.C03Pin
#print axioms I3.Props.C03.source_pinned
#print axioms I3.Props.C03.function_set_pinned
