import I3.Props.C19
#print axioms I3.Props.C19.mul_receiver
#print axioms I3.Props.C19.mul_receiver_self
#print axioms I3.Props.C19.set_receiver
#print axioms I3.Props.C19.set_receiver_self
#print axioms I3.Props.C19.decompress_receiver
#print axioms I3.Props.C19.decompress_receiver_error
#print axioms I3.Props.C19.sigDecompress_receiver
