import I3.Props.C19Gen
#print axioms I3.Props.C19Gen.mul_eq_model
#print axioms I3.Props.C19Gen.set_eq_model
#print axioms I3.Props.C19Gen.decompress_eq_model
#print axioms I3.Props.C19Gen.mul_receiver
#print axioms I3.Props.C19Gen.mul_receiver_self
#print axioms I3.Props.C19Gen.mul_receiver_indep
#print axioms I3.Props.C19Gen.mul_receiver_point
#print axioms I3.Props.C19Gen.set_receiver
#print axioms I3.Props.C19Gen.set_receiver_self
#print axioms I3.Props.C19Gen.add_receiver
#print axioms I3.Props.C19Gen.add_receiver_alias
#print axioms I3.Props.C19Gen.add_receiver_point
#print axioms I3.Props.C19Gen.decompress_receiver
#print axioms I3.Props.C19Gen.decompress_receiver_error
#print axioms I3.Props.C19Gen.decompress_receiver_cases
#print axioms I3.Props.C19Gen.decompress_receiver_point
