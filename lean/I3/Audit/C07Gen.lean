/-
  I3.Audit.C07Gen — axiom audit of every property theorem of I3.Props.C07Gen (parsed by the checker).
-/
import I3.Props.C07Gen
#print axioms I3.Props.C07Gen.hashWithStateEx_ok_iff
#print axioms I3.Props.C07Gen.hashWithStateEx_badLen
#print axioms I3.Props.C07Gen.hashWithStateEx_notInField
#print axioms I3.Props.C07Gen.hashWithStateEx_badNOuts
#print axioms I3.Props.C07Gen.hashWithStateEx_stateNotInField
#print axioms I3.Props.C07Gen.hashWithStateEx_outcomes
#print axioms I3.Props.C07Gen.hashWithStateEx_ok_length
#print axioms I3.Props.C07Gen.hashWithStateEx_ok_canonical
#print axioms I3.Props.C07Gen.hashEx_eq
#print axioms I3.Props.C07Gen.hash_eq
#print axioms I3.Props.C07Gen.hashWithState_eq
#print axioms I3.Props.C07Gen.hashWithState_ok_iff
#print axioms I3.Props.C07Gen.hash_ok_iff
#print axioms I3.Props.C07Gen.hash_badLen
#print axioms I3.Props.C07Gen.hash_notInField
#print axioms I3.Props.C07Gen.hash_ok_canonical
#print axioms I3.Props.C07Gen.hashWithStateEx_no_alias
#print axioms I3.Props.C07Gen.hash_no_alias
