import I3.Props.C20Pin
#print axioms I3.Props.C20.source_pinned
#print axioms I3.Props.C20.function_set_pinned
