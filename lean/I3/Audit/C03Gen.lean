/-
  I3.Audit.C03Gen — axiom audit of every property theorem of I3.Props.C03Gen (parsed by the checker).
-/
import I3.Props.C03Gen
#print axioms I3.Props.C03Gen.verifyPoseidon_none_iff
#print axioms I3.Props.C03Gen.verifyMimc7_none_iff
#print axioms I3.Props.C03Gen.verifyPoseidon_errors
#print axioms I3.Props.C03Gen.verifyMimc7_errors
#print axioms I3.Props.C03Gen.hash_cases
#print axioms I3.Props.C03Gen.verifyPoseidon_iff_eq
#print axioms I3.Props.C03Gen.verifyMimc7_iff_eq
#print axioms I3.Props.C03Gen.verify_hash_error
#print axioms I3.Props.C03Gen.verifyPoseidon_iff
#print axioms I3.Props.C03Gen.verifyMimc7_iff
#print axioms I3.Props.C03Gen.verify_msg_out_of_field
#print axioms I3.Props.C03Gen.verify_coord_out_of_field
#print axioms I3.Props.C03Gen.verify_other_S_rejected
#print axioms I3.Props.C03Gen.verifyPoseidon_other_R8_iff
#print axioms I3.Props.C03Gen.verifyMimc7_other_R8_iff
#print axioms I3.Props.C03Gen.verifyPoseidon_altered_key_iff
#print axioms I3.Props.C03Gen.verifyMimc7_altered_key_iff
#print axioms I3.Props.C03Gen.verifyPoseidon_altered_msg_iff_modEq
#print axioms I3.Props.C03Gen.verifyMimc7_altered_msg_iff_modEq
