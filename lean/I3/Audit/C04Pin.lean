import I3.Props.C04Pin
#print axioms I3.Props.C04.source_pinned
#print axioms I3.Props.C04.function_set_pinned
