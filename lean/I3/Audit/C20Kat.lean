import I3.Props.C20Kat
#print axioms I3.Props.C20Kat.keccak256_empty
#print axioms I3.Props.C20Kat.keccak256_abc
#print axioms I3.Props.C20Kat.blake512_empty
#print axioms I3.Props.C20Kat.blake512_zero_byte
#print axioms I3.Props.C20Kat.generated_wrappers_kat
