/-
  I3.Audit.C10Gen — axiom audit of every property theorem of I3.Props.C10Gen (parsed by the checker).
-/
import I3.Props.C10Gen
#print axioms I3.Props.C10Gen.hash_spec
#print axioms I3.Props.C10Gen.hash_no_error
#print axioms I3.Props.C10Gen.hash_length
#print axioms I3.Props.C10Gen.hash_canonical
#print axioms I3.Props.C10Gen.hash_mod
#print axioms I3.Props.C10Gen.hash_driver
#print axioms I3.Props.C10Gen.hash_kat_zero
#print axioms I3.Props.C10Gen.hash_kat_one
#print axioms I3.Props.C10Gen.hash_kat_pm1
#print axioms I3.Props.C10Gen.hash_kat_p
#print axioms I3.Props.C10Gen.hash_kat_mixed
