/-
  I3.Audit.C12Gen — axiom audit of every property theorem of I3.Props.C12Gen (parsed by the checker).
-/
import I3.Props.C12Gen
#print axioms I3.Props.C12Gen.blake_eq_generated
#print axioms I3.Props.C12Gen.skToBigInt_eq_model
#print axioms I3.Props.C12Gen.public_eq_model
#print axioms I3.Props.C12Gen.pruneBuffer_eq_model
#print axioms I3.Props.C12Gen.pruneBuffer_eq_clamp
#print axioms I3.Props.C12Gen.pruneBuffer_bits
#print axioms I3.Props.C12Gen.pruneBuffer_bytes
#print axioms I3.Props.C12Gen.skToBigInt_eq
#print axioms I3.Props.C12Gen.eight_mul_skToBigInt
#print axioms I3.Props.C12Gen.skToBigInt_range
#print axioms I3.Props.C12Gen.scalar_routes
#print axioms I3.Props.C12Gen.privKeyScalar_public
#print axioms I3.Props.C12Gen.publicKey_eq
#print axioms I3.Props.C12Gen.publicKey_valid
#print axioms I3.Props.C12Gen.publicKey_order
#print axioms I3.Props.C12Gen.publicKey_inSubGroup
#print axioms I3.Props.C12Gen.publicKey_eq_zero_iff
#print axioms I3.Props.C12Gen.publicKey_roundtrip
