/-
  I3.Audit.C08Gen — axiom audit of every property theorem of I3.Props.C08Gen (parsed by the checker).
-/
import I3.Props.C08Gen
#print axioms I3.Props.C08Gen.seed_eq
#print axioms I3.Props.C08Gen.nRounds_eq
#print axioms I3.Props.C08Gen.getConstants_eq
#print axioms I3.Props.C08Gen.getConstants_nonpos
#print axioms I3.Props.C08Gen.getConstants_length
#print axioms I3.Props.C08Gen.getConstants_idx
#print axioms I3.Props.C08Gen.getConstants_lt
#print axioms I3.Props.C08Gen.getConstants_eq_model
#print axioms I3.Props.C08Gen.constants_eq
#print axioms I3.Props.C08Gen.constants_cts_eq_model
#print axioms I3.Props.C08Gen.MIMC7HashGeneric_eq
#print axioms I3.Props.C08Gen.MIMC7HashGeneric_eq_nat
#print axioms I3.Props.C08Gen.MIMC7Hash_eq
#print axioms I3.Props.C08Gen.MIMC7Hash_eq_nat
#print axioms I3.Props.C08Gen.MIMC7Hash_eq_generic
#print axioms I3.Props.C08Gen.MIMC7HashGeneric_canonical
#print axioms I3.Props.C08Gen.MIMC7Hash_canonical
#print axioms I3.Props.C08Gen.Hash_eq_spec
#print axioms I3.Props.C08Gen.Hash_eq
#print axioms I3.Props.C08Gen.Hash_nil
#print axioms I3.Props.C08Gen.Hash_canonical
#print axioms I3.Props.C08Gen.Hash_spec
#print axioms I3.Props.C08Gen.HashGeneric_eq_spec
#print axioms I3.Props.C08Gen.HashGeneric_eq
#print axioms I3.Props.C08Gen.HashGeneric_nil
#print axioms I3.Props.C08Gen.HashGeneric_canonical
#print axioms I3.Props.C08Gen.HashGeneric_spec
#print axioms I3.Props.C08Gen.HashBytes_eq_Hash
#print axioms I3.Props.C08Gen.HashBytes_spec
#print axioms I3.Props.C08Gen.HashBytes_canonical
#print axioms I3.Props.C08Gen.getConstants_two
