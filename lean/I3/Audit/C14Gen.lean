/-
  I3.Audit.C14Gen — axiom audit of every property theorem of I3.Props.C14Gen (parsed by the checker).
-/
import I3.Props.C14Gen
#print axioms I3.Props.C14Gen.subOrder_eq
#print axioms I3.Props.C14Gen.verify_S_out_of_range
#print axioms I3.Props.C14Gen.verify_S_out_of_range_iff
#print axioms I3.Props.C14Gen.verify_ok_S_range
#print axioms I3.Props.C14Gen.verifyPoseidon_S_unique
#print axioms I3.Props.C14Gen.verifyMimc7_S_unique
#print axioms I3.Props.C14Gen.verify_S_unique_points
#print axioms I3.Props.C14Gen.compressed_sig_unique
#print axioms I3.Props.C14Gen.verify_S_shift_rejected
#print axioms I3.Props.C14Gen.left_side_blind_to_shift
