import I3.Props.C14Pin
#print axioms I3.Props.C14.source_pinned
#print axioms I3.Props.C14.function_set_pinned
