import I3.Props.C02Pin
#print axioms I3.Props.C02.source_pinned
#print axioms I3.Props.C02.function_set_pinned
