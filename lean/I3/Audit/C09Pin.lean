import I3.Props.C09Pin
#print axioms I3.Props.C09.source_pinned
#print axioms I3.Props.C09.function_set_pinned
