import I3.Props.C06Pin
#print axioms I3.Props.C06.source_pinned
#print axioms I3.Props.C06.function_set_pinned
