/-
  I3.Audit.C14 — axiom audit of every property theorem of I3.Props.C14 (parsed by the checker).
-/
import I3.Props.C14
#print axioms I3.Props.C14.subOrder_eq
#print axioms I3.Props.C14.verify_S_out_of_range
#print axioms I3.Props.C14.verify_S_out_of_range_iff
#print axioms I3.Props.C14.verify_ok_S_range
#print axioms I3.Props.C14.verify_S_unique
#print axioms I3.Props.C14.verify_S_unique_points
#print axioms I3.Props.C14.compressed_sig_unique
#print axioms I3.Props.C14.verify_S_shift_rejected
#print axioms I3.Props.C14.equation_blind_to_shift
