/-
  I3.Audit.C02 — axiom audit of every property theorem of I3.Props.C02 (parsed by the checker).
-/
import I3.Props.C02
#print axioms I3.Props.C02.publicKey_spec
#print axioms I3.Props.C02.sign_ok
#print axioms I3.Props.C02.sign_spec
#print axioms I3.Props.C02.sign_range
#print axioms I3.Props.C02.sign_deterministic
#print axioms I3.Props.C02.sign_error
#print axioms I3.Props.C02.sign_verify
#print axioms I3.Props.C02.sign_ok_verify
#print axioms I3.Props.C02.sign_verify_roundtrip
#print axioms I3.Props.C02.hPoseidon_total
#print axioms I3.Props.C02.hMimc7_total
#print axioms I3.Props.C02.sign_verify_poseidon
#print axioms I3.Props.C02.sign_verify_mimc7
#print axioms I3.Props.C02.sign_msg_out_of_field
#print axioms I3.Props.C02.sign_verify_roundtrip_poseidon
#print axioms I3.Props.C02.sign_verify_roundtrip_mimc7
