import I3.Props.C08Pin
#print axioms I3.Props.C08.source_pinned
#print axioms I3.Props.C08.function_set_pinned
