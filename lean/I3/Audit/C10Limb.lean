/-
  I3.Audit.C10Limb — axiom audit of every property theorem of I3.Props.C10Limb (parsed by the checker).
-/
import I3.Props.C10Limb
#print axioms I3.Props.C10Limb.hash_limb_eq
#print axioms I3.Props.C10Limb.tables_rep
#print axioms I3.Props.C10Limb.tables_are_init
#print axioms I3.Props.C10Limb.init_limb_lengths
#print axioms I3.Props.C10Limb.exp7_sim
#print axioms I3.Props.C10Limb.exp7state_sim
#print axioms I3.Props.C10Limb.ark_sim
#print axioms I3.Props.C10Limb.mix_sim
#print axioms I3.Props.C10Limb.hash_spec
#print axioms I3.Props.C10Limb.hash_no_error
#print axioms I3.Props.C10Limb.hash_length
#print axioms I3.Props.C10Limb.hash_canonical
#print axioms I3.Props.C10Limb.hash_mod
#print axioms I3.Props.C10Limb.hash_driver
#print axioms I3.Props.C10Limb.hash_kat_zero
#print axioms I3.Props.C10Limb.hash_kat_one
#print axioms I3.Props.C10Limb.hash_kat_pm1
#print axioms I3.Props.C10Limb.hash_kat_p
#print axioms I3.Props.C10Limb.hash_kat_mixed
