/-
  I3.Audit.C20KeccakGen — axiom audit of the C20 property theorems about the translated golang.org/x/crypto/sha3 code.
  Every line must report a subset of {propext, Classical.choice, Quot.sound}.
-/
import I3.Props.C20KeccakGen
#print axioms I3.Props.C20KeccakGen.rounds_eq_round
#print axioms I3.Props.C20KeccakGen.loopBody_eq_rounds
#print axioms I3.Props.C20KeccakGen.rc_eq_spec
#print axioms I3.Props.C20KeccakGen.keccakF1600_go_eq_spec
#print axioms I3.Props.C20KeccakGen.keccakF1600_go_eq_spec_array
#print axioms I3.Props.C20KeccakGen.lanes_ofLanes_id
#print axioms I3.Props.C20KeccakGen.ofLanes_lanes_id
#print axioms I3.Props.C20KeccakGen.loop_fuel
#print axioms I3.Props.C20KeccakGen.cast_roundtrip
#print axioms I3.Props.C20KeccakGen.permute_go_eq_spec
#print axioms I3.Props.C20KeccakGen.permute_frame
#print axioms I3.Props.C20KeccakGen.new_parameters
