import I3.Props.C01Pin
#print axioms I3.Props.C01.source_pinned
#print axioms I3.Props.C01.function_set_pinned
