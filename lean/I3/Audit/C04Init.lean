import I3.Props.C04Init
#print axioms I3.Props.C04Init.babyjub_init_eq
#print axioms I3.Props.C04Init.babyjub_init_orders
#print axioms I3.Props.C04Init.babyjub_init_ok_true
