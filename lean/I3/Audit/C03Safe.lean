/-
  I3.Audit.C03Safe — axiom audit of every property theorem of I3.Props.C03Safe (parsed by the checker).
-/
import I3.Props.C03Safe
#print axioms I3.Props.C03Safe.babyjub_Point_Projective_ok_true
#print axioms I3.Props.C03Safe.babyjub_PointProjective_Add_ok_true
#print axioms I3.Props.C03Safe.babyjub_PointProjective_Affine_ok_true
#print axioms I3.Props.C03Safe.babyjub_Point_Mul_ok_true
#print axioms I3.Props.C03Safe.poseidon_Hash_ok_true
#print axioms I3.Props.C03Safe.mimc7_Hash_ok_true
#print axioms I3.Props.C03Safe.babyjub_PublicKey_VerifyPoseidon_ok_true
#print axioms I3.Props.C03Safe.babyjub_PublicKey_VerifyMimc7_ok_true
