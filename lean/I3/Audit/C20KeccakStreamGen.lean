/-
  I3.Audit.C20KeccakStreamGen — axiom audit of the C20 property theorems about the translated sponge of
  golang.org/x/crypto/sha3 (Write/Sum refine the Keccak-256 specification).
  Every line must report a subset of {propext, Classical.choice, Quot.sound}.
-/
import I3.Props.C20KeccakStreamGen
#print axioms I3.Props.C20KeccakStreamGen.refines_iff
#print axioms I3.Props.C20KeccakStreamGen.xorb_spec
#print axioms I3.Props.C20KeccakStreamGen.new_refines
#print axioms I3.Props.C20KeccakStreamGen.write_refines
#print axioms I3.Props.C20KeccakStreamGen.write_returns_len
#print axioms I3.Props.C20KeccakStreamGen.no_panic
#print axioms I3.Props.C20KeccakStreamGen.write_fuel
#print axioms I3.Props.C20KeccakStreamGen.write_fuel_any
#print axioms I3.Props.C20KeccakStreamGen.sum_refines
#print axioms I3.Props.C20KeccakStreamGen.read_fuel
#print axioms I3.Props.C20KeccakStreamGen.foldl_refines
#print axioms I3.Props.C20KeccakStreamGen.go_eq_stream
#print axioms I3.Props.C20KeccakStreamGen.keccak256_go_eq_spec
#print axioms I3.Props.C20KeccakStreamGen.keccak256_go_sum_append
#print axioms I3.Props.C20KeccakStreamGen.go_split_independent
#print axioms I3.Props.C20KeccakStreamGen.sum_then_write
#print axioms I3.Props.C20KeccakStreamGen.hasher_eq_go
#print axioms I3.Props.C20KeccakStreamGen.keccak256_Hash_eq_go
#print axioms I3.Props.C20KeccakStreamGen.ext_keccak256_eq_go
