import I3.Props.C17Sites
#print axioms I3.Props.C17.no_global_write_outside_init
#print axioms I3.Props.C17.all_sites_owned
#print axioms I3.Props.C17.pool_discipline
#print axioms I3.Props.C17.pool_uses_found
