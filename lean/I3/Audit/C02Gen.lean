/-
  I3.Audit.C02Gen — axiom audit of every property theorem of I3.Props.C02Gen (parsed by the checker).
-/
import I3.Props.C02Gen
#print axioms I3.Props.C02Gen.signPoseidon_eq_model
#print axioms I3.Props.C02Gen.signMimc7_eq_model
#print axioms I3.Props.C02Gen.verifyPoseidon_eq_model
#print axioms I3.Props.C02Gen.verifyMimc7_eq_model
#print axioms I3.Props.C02Gen.publicKey_spec
#print axioms I3.Props.C02Gen.signPoseidon_ok
#print axioms I3.Props.C02Gen.signMimc7_ok
#print axioms I3.Props.C02Gen.signPoseidon_spec
#print axioms I3.Props.C02Gen.signMimc7_spec
#print axioms I3.Props.C02Gen.signPoseidon_range
#print axioms I3.Props.C02Gen.signMimc7_range
#print axioms I3.Props.C02Gen.sign_deterministic
#print axioms I3.Props.C02Gen.sign_error
#print axioms I3.Props.C02Gen.sign_msg_out_of_field
#print axioms I3.Props.C02Gen.sign_ok_iff
#print axioms I3.Props.C02Gen.signPoseidon_verify
#print axioms I3.Props.C02Gen.signMimc7_verify
#print axioms I3.Props.C02Gen.sign_verify_poseidon
#print axioms I3.Props.C02Gen.sign_verify_mimc7
#print axioms I3.Props.C02Gen.sign_verify_roundtrip_poseidon
#print axioms I3.Props.C02Gen.sign_verify_roundtrip_mimc7
#print axioms I3.Props.C02Gen.signature_codec_eq_model
#print axioms I3.Props.C02Gen.signature_decompress_receiver
