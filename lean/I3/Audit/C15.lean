/-
  I3.Audit.C15 — axiom audit of every property theorem of I3.Props.C15 (parsed by the checker).
-/
import I3.Props.C15
#print axioms I3.Props.C15.hex_roundtrip
#print axioms I3.Props.C15.hexDecode_hexEncode0x
#print axioms I3.Props.C15.hexDecode_hexEncode
#print axioms I3.Props.C15.hexDecodeInto_ok_iff
#print axioms I3.Props.C15.hexDecodeInto_length
#print axioms I3.Props.C15.hexDecodeInto_roundtrip
#print axioms I3.Props.C15.hexDecodeInto_roundtrip0x
#print axioms I3.Props.C15.hexDecodeInto_wrong_len
#print axioms I3.Props.C15.natToLE_length
#print axioms I3.Props.C15.leToNat_natToLE
#print axioms I3.Props.C15.leToNat_lt
#print axioms I3.Props.C15.natToLE_leToNat
#print axioms I3.Props.C15.le_roundtrip
#print axioms I3.Props.C15.le_roundtrip'
#print axioms I3.Props.C15.setBigIntFromLEBytes_bigIntLEBytes
#print axioms I3.Props.C15.swap_involutive
#print axioms I3.Props.C15.swap_length
#print axioms I3.Props.C15.packSignY_length
#print axioms I3.Props.C15.unpackSignY_packSignY
#print axioms I3.Props.C15.unpackSignY_packSignY_nat
#print axioms I3.Props.C15.unpackSignY_lt
#print axioms I3.Props.C15.packSignY_unpackSignY
#print axioms I3.Props.C15.compress_length
#print axioms I3.Props.C15.sigCompress_length
#print axioms I3.Props.C15.sigDecompress_sigCompress
#print axioms I3.Props.C15.unmarshalPublicKey_marshalPublicKey
#print axioms I3.Props.C15.unmarshalPublicKey_marshalPublicKey0x
#print axioms I3.Props.C15.scanPublicKey_compress
#print axioms I3.Props.C15.scanSignature_sigCompress
#print axioms I3.Props.C15.decompressSigText_hexEncode
#print axioms I3.Props.C15.scanFixed_ok_iff
#print axioms I3.Props.C15.scanFixed_wrong_type
#print axioms I3.Props.C15.scanFixed_wrong_len
#print axioms I3.Props.C15.scanPublicKey_ok_iff
#print axioms I3.Props.C15.scanSignature_ok_iff
#print axioms I3.Props.C15.unmarshalPublicKey_ok_iff
#print axioms I3.Props.C15.decompressSigText_ok_iff
#print axioms I3.Props.C15.scanPublicKey_bad_point
