/-
  I3.Audit.C11Init — axiom audit of every property theorem of I3.Props.C11Init (parsed by the checker).
-/
import I3.Props.C11Init
#print axioms I3.Props.C11Init.ff_init_eq
#print axioms I3.Props.C11Init.ffg_init_eq
#print axioms I3.Props.C11Init.constants_init_eq
#print axioms I3.Props.C11Init.init_values
#print axioms I3.Props.C11Init.ff_parse_ok
#print axioms I3.Props.C11Init.ffg_parse_ok
#print axioms I3.Props.C11Init.init_ok_true
