import I3.Props.C13Gen
#print axioms I3.Props.C13Gen.mulG_eq_model
#print axioms I3.Props.C13Gen.inCurve_exact
#print axioms I3.Props.C13Gen.inCurve_false_iff
#print axioms I3.Props.C13Gen.inCurve_iff_coords
#print axioms I3.Props.C13Gen.inCurve_coords
#print axioms I3.Props.C13Gen.inSubGroup_exact_int
#print axioms I3.Props.C13Gen.inSubGroup_exact
#print axioms I3.Props.C13Gen.inSubGroup_coords
#print axioms I3.Props.C13Gen.inSubGroup_mul_b8
#print axioms I3.Props.C13Gen.not_inSubGroup_add_small
#print axioms I3.Props.C13Gen.not_inSubGroup_small
#print axioms I3.Props.C13Gen.not_inSubGroup_smallN
#print axioms I3.Props.C13Gen.not_inSubGroup_off_curve
#print axioms I3.Props.C13Gen.not_inSubGroup_zero_zero
#print axioms I3.Props.C13Gen.inSubGroup_iff_mul_b8
#print axioms I3.Props.C13Gen.mul_b8_injective
