import I3.Props.C16Pin
#print axioms I3.Props.C16.source_pinned
#print axioms I3.Props.C16.function_set_pinned
