/-
  I3.Audit.C20BlakeGen — axiom audit of the C20 property theorems about the translated dchest/blake512 compression
  code.  Every line must report a subset of {propext, Classical.choice, Quot.sound}.
-/
import I3.Props.C20BlakeGen
#print axioms I3.Props.C20BlakeGen.rounds_eq_roundB
#print axioms I3.Props.C20BlakeGen.blockStep_eq_compress
#print axioms I3.Props.C20BlakeGen.blockStep_eq_compress_array
#print axioms I3.Props.C20BlakeGen.blockStep_eq_compress_counting
#print axioms I3.Props.C20BlakeGen.blockStep_eq_compress_nullt
#print axioms I3.Props.C20BlakeGen.blockStep_eq_compress_prefix
#print axioms I3.Props.C20BlakeGen.block_eq_model
#print axioms I3.Props.C20BlakeGen.block_eq_model_fields
#print axioms I3.Props.C20BlakeGen.init_size
#print axioms I3.Props.C20BlakeGen.block_size
#print axioms I3.Props.C20BlakeGen.write_size
#print axioms I3.Props.C20BlakeGen.sumPad_size
#print axioms I3.Props.C20BlakeGen.stream_sizes
#print axioms I3.Props.C20BlakeGen.blocks_fuel
