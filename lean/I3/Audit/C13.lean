/-
  I3.Audit.C13 — axiom audit of every property theorem of I3.Props.C13 (parsed by the checker).
-/
import I3.Props.C13
#print axioms I3.Props.C13.inCurve_exact
#print axioms I3.Props.C13.inCurve_false_iff
#print axioms I3.Props.C13.inCurve_iff_coords
#print axioms I3.Props.C13.inSubGroup_exact_int
#print axioms I3.Props.C13.inSubGroup_exact
#print axioms I3.Props.C13.inSubGroup_coords
#print axioms I3.Props.C13.inSubGroup_mul_b8
#print axioms I3.Props.C13.l_smul_small_ne_zero
#print axioms I3.Props.C13.not_inSubGroup_add_small
#print axioms I3.Props.C13.not_inSubGroup_small
#print axioms I3.Props.C13.not_inSubGroup_smallN
#print axioms I3.Props.C13.not_inSubGroup_off_curve
#print axioms I3.Props.C13.not_inSubGroup_zero_zero
#print axioms I3.Props.C13.l_torsion_eq_multiples_B8
#print axioms I3.Props.C13.inSubGroup_iff_mul_b8
#print axioms I3.Props.C13.mul_b8_injective
