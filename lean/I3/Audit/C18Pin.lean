import I3.Props.C18Pin
#print axioms I3.Props.C18.source_pinned
#print axioms I3.Props.C18.function_set_pinned
