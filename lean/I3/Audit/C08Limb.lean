/-
  I3.Audit.C08Limb — axiom audit of every property theorem of I3.Props.C08Limb (parsed by the checker).
-/
import I3.Props.C08Limb
#print axioms I3.Props.C08Limb.MIMC7HashGeneric_limb_eq
#print axioms I3.Props.C08Limb.MIMC7Hash_limb_eq
#print axioms I3.Props.C08Limb.HashGeneric_limb_eq
#print axioms I3.Props.C08Limb.Hash_limb_eq
#print axioms I3.Props.C08Limb.HashBytes_limb_eq
#print axioms I3.Props.C08Limb.getConstants_rep
#print axioms I3.Props.C08Limb.getConstants_spec_rep
#print axioms I3.Props.C08Limb.getConstants_limb_nonpos
#print axioms I3.Props.C08Limb.getConstants_limb_length
#print axioms I3.Props.C08Limb.getConstants_idx_rep
#print axioms I3.Props.C08Limb.constants_limb_eq
#print axioms I3.Props.C08Limb.constants_cts_rep
#print axioms I3.Props.C08Limb.constants_cts_rep_gen
#print axioms I3.Props.C08Limb.MIMC7HashGeneric_eq
#print axioms I3.Props.C08Limb.MIMC7HashGeneric_eq_nat
#print axioms I3.Props.C08Limb.MIMC7Hash_eq
#print axioms I3.Props.C08Limb.MIMC7Hash_eq_nat
#print axioms I3.Props.C08Limb.MIMC7Hash_eq_generic
#print axioms I3.Props.C08Limb.MIMC7HashGeneric_canonical
#print axioms I3.Props.C08Limb.MIMC7Hash_canonical
#print axioms I3.Props.C08Limb.Hash_eq_spec
#print axioms I3.Props.C08Limb.Hash_eq
#print axioms I3.Props.C08Limb.Hash_nil
#print axioms I3.Props.C08Limb.Hash_canonical
#print axioms I3.Props.C08Limb.Hash_spec
#print axioms I3.Props.C08Limb.HashGeneric_eq_spec
#print axioms I3.Props.C08Limb.HashGeneric_eq
#print axioms I3.Props.C08Limb.HashGeneric_nil
#print axioms I3.Props.C08Limb.HashGeneric_canonical
#print axioms I3.Props.C08Limb.HashGeneric_spec
#print axioms I3.Props.C08Limb.HashBytes_eq_Hash
#print axioms I3.Props.C08Limb.HashBytes_spec
#print axioms I3.Props.C08Limb.HashBytes_canonical
#print axioms I3.Props.C08Limb.getConstants_two_limb
