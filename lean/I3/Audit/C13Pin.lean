import I3.Props.C13Pin
#print axioms I3.Props.C13.source_pinned
#print axioms I3.Props.C13.function_set_pinned
