/-
  I3.Audit.C16Machine — axiom audit of every property theorem of I3.Props.C16Machine (parsed by
  the checker), followed by the theorems of the concrete non-vacuity instance.
-/
import I3.Props.C16Machine
#print axioms I3.Props.C16.frame_globals
#print axioms I3.Props.C16.frame_args
#print axioms I3.Props.C16.result_footprint
#print axioms I3.Props.C16.result_depends_on_footprint_only
#print axioms I3.Props.C16.result_history_independent
#print axioms I3.Props.C16.repeat_same_result
#print axioms I3.Props.C16.addOne_ok
#print axioms I3.Props.C16.failing_ok
#print axioms I3.Props.C16.exHist_ok
#print axioms I3.Props.C16.exS0_wf
#print axioms I3.Props.C16.exS1_wf
