import I3.Props.C05Pin
#print axioms I3.Props.C05.source_pinned
#print axioms I3.Props.C05.function_set_pinned
