/-
  I3.Audit.C02Safe — axiom audit of every property theorem of I3.Props.C02Safe (parsed by the checker).
-/
import I3.Props.C02Safe
#print axioms I3.Props.C02Safe.babyjub_SkToBigInt_ok_true
#print axioms I3.Props.C02Safe.babyjub_PrivateKey_Scalar_ok_true
#print axioms I3.Props.C02Safe.babyjub_PrivKeyScalar_Public_ok_true
#print axioms I3.Props.C02Safe.babyjub_PrivateKey_Public_ok_true
#print axioms I3.Props.C02Safe.babyjub_pruneBuffer_ok_true
#print axioms I3.Props.C02Safe.babyjub_PrivateKey_SignPoseidon_ok_true
#print axioms I3.Props.C02Safe.babyjub_PrivateKey_SignMimc7_ok_true
#print axioms I3.Props.C02Safe.goldenposeidon_Hash_ok_true
#print axioms I3.Props.C02Safe.keccak256_Hash_ok_true
#print axioms I3.Props.C02Safe.babyjub_Blake512_ok_true
