import I3.Props.C10Init
#print axioms I3.Props.C10Init.goldenposeidon_init_eq
#print axioms I3.Props.C10Init.goldenposeidon_init_ok_true
