/-
  I3.Audit.C01Limb — axiom audit of every property theorem of I3.Props.C01Limb (parsed by the checker).
-/
import I3.Props.C01Limb
#print axioms I3.Props.C01Limb.hashWithStateEx_limb_eq
#print axioms I3.Props.C01Limb.hashWithState_limb_eq
#print axioms I3.Props.C01Limb.hash_limb_eq
#print axioms I3.Props.C01Limb.hashEx_limb_eq
#print axioms I3.Props.C01Limb.tables_canonical
#print axioms I3.Props.C01Limb.tables_rep
#print axioms I3.Props.C01Limb.exp_sim
#print axioms I3.Props.C01Limb.exp_pow
#print axioms I3.Props.C01Limb.exp5_sim
#print axioms I3.Props.C01Limb.exp5state_sim
#print axioms I3.Props.C01Limb.ark_sim
#print axioms I3.Props.C01Limb.mix_sim
#print axioms I3.Props.C01Limb.permutation_sim
#print axioms I3.Props.C01Limb.poseidon_eq_reference
#print axioms I3.Props.C01Limb.poseidon_spec
#print axioms I3.Props.C01Limb.hashEx_spec
#print axioms I3.Props.C01Limb.hash_eq_reference
#print axioms I3.Props.C01Limb.hash_spec
#print axioms I3.Props.C01Limb.poseidon_output_lt_q
#print axioms I3.Props.C01Limb.vector_1_2
#print axioms I3.Props.C01Limb.hash_vector_1_2
