import I3.Props.C16Gen
#print axioms I3.Props.C16Gen.written_params_documented
#print axioms I3.Props.C16Gen.exported_non_receiver_writes
#print axioms I3.Props.C16Gen.no_exported_operand_writes
#print axioms I3.Props.C16Gen.table_nonempty
#print axioms I3.Props.C16Gen.translated_count
#print axioms I3.Props.C16Gen.unexported_operand_writers
