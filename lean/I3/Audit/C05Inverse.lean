import I3.Props.C05Inverse
#print axioms I3.Props.C05Inverse.inverse_zero
#print axioms I3.Props.C05Inverse.inverse_ok
#print axioms I3.Props.C05Inverse.inverse_terminates
#print axioms I3.Props.C05Inverse.inverse_dest_irrelevant
#print axioms I3.Props.C05Inverse.inverse_alias
#print axioms I3.Props.C05Inverse.inverse_field
#print axioms I3.Props.C05Inverse.inverse_unique
#print axioms I3.Props.C05Inverse.inverse_mul
