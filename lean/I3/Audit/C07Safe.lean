/-
  I3.Audit.C07Safe — axiom audit of every property theorem of I3.Props.C07Safe (parsed by the checker).
-/
import I3.Props.C07Safe
#print axioms I3.Props.C07Safe.utils_CheckBigIntInField_ok_true
#print axioms I3.Props.C07Safe.utils_CheckBigIntArrayInField_ok_true
#print axioms I3.Props.C07Safe.utils_BigIntArrayToElementArray_ok_true
#print axioms I3.Props.C07Safe.poseidon_HashWithStateEx_ok_true
#print axioms I3.Props.C07Safe.poseidon_HashWithState_ok_true
#print axioms I3.Props.C07Safe.poseidon_Hash_ok_true
#print axioms I3.Props.C07Safe.poseidon_HashEx_ok_true
#print axioms I3.Props.C07Safe.mimc7_Hash_ok_true
#print axioms I3.Props.C07Safe.mimc7_MIMC7Hash_ok_true
#print axioms I3.Props.C07Safe.mimc7_MIMC7HashGeneric_ok_iff
#print axioms I3.Props.C07Safe.mimc7_MIMC7HashGeneric_ok_zero
#print axioms I3.Props.C07Safe.mimc7_MIMC7HashGeneric_ok_neg_one
#print axioms I3.Props.C07Safe.mimc7_HashGeneric_ok_iff
#print axioms I3.Props.C07Safe.mimc7_HashGeneric_ok_true
#print axioms I3.Props.C07Safe.mimc7_HashGeneric_ok_rejected
#print axioms I3.Props.C07Safe.mimc7_HashGeneric_ok_nil
#print axioms I3.Props.C07Safe.mimc7_HashGeneric_ok_one_zero
#print axioms I3.Props.C07Safe.mimc7_HashBytes_ok_true
