import I3.Props.C16Sites
#print axioms I3.Props.C16.all_sites_allowed
#print axioms I3.Props.C16.sites_nonempty
#print axioms I3.Props.C16.sites_cover_classes
