/-
  I3.Audit.C13Safe — axiom audit of every property theorem of I3.Props.C13Safe (parsed by the checker).
-/
import I3.Props.C13Safe
#print axioms I3.Props.C13Safe.babyjub_Point_InCurve_ok_true
#print axioms I3.Props.C13Safe.babyjub_Point_InSubGroup_ok_true
#print axioms I3.Props.C13Safe.babyjub_PointCoordSign_ok_true
#print axioms I3.Props.C13Safe.babyjub_Point_Set_ok_true
#print axioms I3.Props.C13Safe.babyjub_NewPoint_ok_true
#print axioms I3.Props.C13Safe.babyjub_NewPointProjective_ok_true
#print axioms I3.Props.C13Safe.babyjub_Point_Projective_ok_true
#print axioms I3.Props.C13Safe.babyjub_Point_Mul_ok_true
