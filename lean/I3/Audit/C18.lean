/-
  I3.Audit.C18 — axiom audit of every property theorem of C18 (general theorems in I3.Props.C18,
  their instances at the regenerated constants in I3.Props.C18Inst).  Expected output: only
  propext, Classical.choice, Quot.sound.
-/
import I3.Props.C18
import I3.Props.C18Inst

-- I3/Props/C18.lean
#print axioms I3.Props.C18.exp_correct
#print axioms I3.Props.C18.exp_zero
#print axioms I3.Props.C18.inverse_correct
#print axioms I3.Props.C18.inverse_zero
#print axioms I3.Props.C18.inverse_mul_cancel
#print axioms I3.Props.C18.div_correct
#print axioms I3.Props.C18.div_zero
#print axioms I3.Props.C18.batchInvert_correct
#print axioms I3.Props.C18.batchInvert_nil
#print axioms I3.Props.C18.halve_correct
#print axioms I3.Props.C18.legendre_values
#print axioms I3.Props.C18.legendre_zero_iff
#print axioms I3.Props.C18.legendre_one_iff
#print axioms I3.Props.C18.legendre_neg_one_iff
#print axioms I3.Props.C18.legendre_zero_iff_nat
#print axioms I3.Props.C18.isSquare_iff_nat
#print axioms I3.Props.C18.sqrt_some
#print axioms I3.Props.C18.sqrt_none_iff
#print axioms I3.Props.C18.sqrt_of_isSquare
#print axioms I3.Props.C18.sqrt_zero
#print axioms I3.Props.C18.sqrt_isSome_iff_legendre
#print axioms I3.Props.C18.ordLog_exact
#print axioms I3.Props.C18.ts_init
#print axioms I3.Props.C18.g_orderOf
#print axioms I3.Props.C18.ts_step
#print axioms I3.Props.C18.ts_exit
#print axioms I3.Props.C18.tsLoop_terminates
#print axioms I3.Props.C18.cmp_correct
#print axioms I3.Props.C18.lexLargest_correct
#print axioms I3.Props.C18.toStringInt_correct
#print axioms I3.Props.C18.toy_wf

-- I3/Props/C18Inst.lean
#print axioms I3.Props.C18.ff_m
#print axioms I3.Props.C18.ffg_m
#print axioms I3.Props.C18.ff_wf
#print axioms I3.Props.C18.ffg_wf
#print axioms I3.Props.C18.ff_r
#print axioms I3.Props.C18.ffg_r
#print axioms I3.Props.C18.ff_g_orderOf
#print axioms I3.Props.C18.ff_exp_correct
#print axioms I3.Props.C18.ff_inverse_correct
#print axioms I3.Props.C18.ff_inverse_zero
#print axioms I3.Props.C18.ff_div_correct
#print axioms I3.Props.C18.ff_div_zero
#print axioms I3.Props.C18.ff_batchInvert_correct
#print axioms I3.Props.C18.ff_halve_correct
#print axioms I3.Props.C18.ff_legendre_values
#print axioms I3.Props.C18.ff_legendre_zero_iff
#print axioms I3.Props.C18.ff_legendre_one_iff
#print axioms I3.Props.C18.ff_legendre_neg_one_iff
#print axioms I3.Props.C18.ff_isSquare_iff_nat
#print axioms I3.Props.C18.ff_sqrt_some
#print axioms I3.Props.C18.ff_sqrt_none_iff
#print axioms I3.Props.C18.ff_sqrt_of_isSquare
#print axioms I3.Props.C18.ff_sqrt_zero
#print axioms I3.Props.C18.ff_sqrt_isSome_iff_legendre
#print axioms I3.Props.C18.ff_lexLargest_correct
#print axioms I3.Props.C18.ff_toStringInt_correct
#print axioms I3.Props.C18.ffg_g_orderOf
#print axioms I3.Props.C18.ffg_exp_correct
#print axioms I3.Props.C18.ffg_inverse_correct
#print axioms I3.Props.C18.ffg_inverse_zero
#print axioms I3.Props.C18.ffg_div_correct
#print axioms I3.Props.C18.ffg_div_zero
#print axioms I3.Props.C18.ffg_batchInvert_correct
#print axioms I3.Props.C18.ffg_halve_correct
#print axioms I3.Props.C18.ffg_legendre_values
#print axioms I3.Props.C18.ffg_legendre_zero_iff
#print axioms I3.Props.C18.ffg_legendre_one_iff
#print axioms I3.Props.C18.ffg_legendre_neg_one_iff
#print axioms I3.Props.C18.ffg_isSquare_iff_nat
#print axioms I3.Props.C18.ffg_sqrt_some
#print axioms I3.Props.C18.ffg_sqrt_none_iff
#print axioms I3.Props.C18.ffg_sqrt_of_isSquare
#print axioms I3.Props.C18.ffg_sqrt_zero
#print axioms I3.Props.C18.ffg_sqrt_isSome_iff_legendre
#print axioms I3.Props.C18.ffg_lexLargest_correct
#print axioms I3.Props.C18.ffg_toStringInt_correct
