import I3.Props.C11SafeIface
#print axioms I3.Props.C11SafeIface.ff_uint64_ok
#print axioms I3.Props.C11SafeIface.ff_int_ok
#print axioms I3.Props.C11SafeIface.ff_string_ok_iff
#print axioms I3.Props.C11SafeIface.ff_bigIntPtr_ok
#print axioms I3.Props.C11SafeIface.ff_bigInt_ok
#print axioms I3.Props.C11SafeIface.ff_bytes_ok
#print axioms I3.Props.C11SafeIface.ff_element_ok
#print axioms I3.Props.C11SafeIface.ff_default_ok
#print axioms I3.Props.C11SafeIface.ffg_uint64_ok
#print axioms I3.Props.C11SafeIface.ffg_int_ok
#print axioms I3.Props.C11SafeIface.ffg_bigIntPtr_ok
#print axioms I3.Props.C11SafeIface.ffg_bigInt_ok
#print axioms I3.Props.C11SafeIface.ffg_bytes_ok
#print axioms I3.Props.C11SafeIface.ffg_element_ok
#print axioms I3.Props.C11SafeIface.ffg_default_ok
