/-
  I3.Audit.C03 — axiom audit of every property theorem of I3.Props.C03 (parsed by the checker).
-/
import I3.Props.C03
#print axioms I3.Props.C03.verify_iff
#print axioms I3.Props.C03.verify_reject
#print axioms I3.Props.C03.verify_ok_or_failed
#print axioms I3.Props.C03.verify_hash_error
#print axioms I3.Props.C03.verify_iff_total
#print axioms I3.Props.C03.hPoseidon_total
#print axioms I3.Props.C03.hMimc7_total
#print axioms I3.Props.C03.hPoseidon_none
#print axioms I3.Props.C03.hMimc7_none
#print axioms I3.Props.C03.verifyPoseidon_iff
#print axioms I3.Props.C03.verifyMimc7_iff
#print axioms I3.Props.C03.verify_msg_out_of_field
#print axioms I3.Props.C03.verify_coord_out_of_field
#print axioms I3.Props.C03.verify_other_S_rejected
#print axioms I3.Props.C03.verify_other_R8_rejected
#print axioms I3.Props.C03.verify_other_R8_iff
#print axioms I3.Props.C03.verify_altered_key_rejected
#print axioms I3.Props.C03.verify_altered_key_iff
#print axioms I3.Props.C03.verify_altered_msg_iff
#print axioms I3.Props.C03.verify_altered_msg_iff_modEq
