import I3.Props.C17Pin
#print axioms I3.Props.C17.source_pinned
#print axioms I3.Props.C17.function_set_pinned
