/-
  I3.Audit.C18Gen — axiom audit of every property theorem of C18 about the GENERATED code
  (I3.Props.C18Gen: `I3.Gen.Go.ff_*` / `I3.Gen.Go.ffg_*`, regenerated from /repo/ff/element.go and
  /repo/ffg/element.go), and of the bridge lemmas they rest on (I3.Lemmas.GoBridgeFF).
  Expected output: only propext, Classical.choice, Quot.sound.
-/
import I3.Props.C18Gen

-- I3/Props/C18Gen.lean
#print axioms I3.Props.C18Gen.ff_Exp_correct
#print axioms I3.Props.C18Gen.ff_Exp_nat
#print axioms I3.Props.C18Gen.ff_Exp_zero
#print axioms I3.Props.C18Gen.ff_Div_correct
#print axioms I3.Props.C18Gen.ff_Div_zero
#print axioms I3.Props.C18Gen.ff_BatchInvert_correct
#print axioms I3.Props.C18Gen.ff_BatchInvert_entries
#print axioms I3.Props.C18Gen.ff_BatchInvert_nil
#print axioms I3.Props.C18Gen.ff_Legendre_values
#print axioms I3.Props.C18Gen.ff_Legendre_zero_iff
#print axioms I3.Props.C18Gen.ff_Legendre_one_iff
#print axioms I3.Props.C18Gen.ff_Legendre_neg_one_iff
#print axioms I3.Props.C18Gen.ff_Sqrt_terminates
#print axioms I3.Props.C18Gen.ff_Sqrt_correct
#print axioms I3.Props.C18Gen.ff_Sqrt_some_iff
#print axioms I3.Props.C18Gen.ff_Sqrt_none_iff
#print axioms I3.Props.C18Gen.ff_Sqrt_some
#print axioms I3.Props.C18Gen.ff_Sqrt_zero
#print axioms I3.Props.C18Gen.ff_Sqrt_isSome_iff_Legendre
#print axioms I3.Props.C18Gen.ffg_Exp_correct
#print axioms I3.Props.C18Gen.ffg_Exp_nat
#print axioms I3.Props.C18Gen.ffg_Exp_zero
#print axioms I3.Props.C18Gen.ffg_Div_correct
#print axioms I3.Props.C18Gen.ffg_Div_zero
#print axioms I3.Props.C18Gen.ffg_BatchInvert_correct
#print axioms I3.Props.C18Gen.ffg_BatchInvert_entries
#print axioms I3.Props.C18Gen.ffg_BatchInvert_nil
#print axioms I3.Props.C18Gen.ffg_Legendre_values
#print axioms I3.Props.C18Gen.ffg_Legendre_zero_iff
#print axioms I3.Props.C18Gen.ffg_Legendre_one_iff
#print axioms I3.Props.C18Gen.ffg_Legendre_neg_one_iff
#print axioms I3.Props.C18Gen.ffg_Sqrt_terminates
#print axioms I3.Props.C18Gen.ffg_Sqrt_correct
#print axioms I3.Props.C18Gen.ffg_Sqrt_some_iff
#print axioms I3.Props.C18Gen.ffg_Sqrt_none_iff
#print axioms I3.Props.C18Gen.ffg_Sqrt_some
#print axioms I3.Props.C18Gen.ffg_Sqrt_zero
#print axioms I3.Props.C18Gen.ffg_Sqrt_isSome_iff_Legendre

-- I3/Lemmas/GoBridgeFF.lean (bridge: generated function = model function)
#print axioms I3.GoBridge.ff_modulus_q
#print axioms I3.GoBridge.ffg_modulus_gp
#print axioms I3.GoBridge.ff_one_lit
#print axioms I3.GoBridge.ffg_one_lit
#print axioms I3.GoBridge.ff_g_lit
#print axioms I3.GoBridge.ffg_g_lit
#print axioms I3.GoBridge.forRange_iter
#print axioms I3.GoBridge.forRangeN_iter
#print axioms I3.GoBridge.forDown_iter
#print axioms I3.GoBridge.whileFuel_iterate
#print axioms I3.GoBridge.ff_Element_Div_eq
#print axioms I3.GoBridge.ff_BatchInvert_eq
#print axioms I3.GoBridge.ff_Element_Exp_eq
#print axioms I3.GoBridge.ff_Element_Exp_eq_toNat
#print axioms I3.GoBridge.ff_Element_Legendre_eq
#print axioms I3.GoBridge.ff_Element_Sqrt_eq
#print axioms I3.GoBridge.ffg_Element_Div_eq
#print axioms I3.GoBridge.ffg_BatchInvert_eq
#print axioms I3.GoBridge.ffg_Element_Exp_eq
#print axioms I3.GoBridge.ffg_Element_Exp_eq_toNat
#print axioms I3.GoBridge.ffg_Element_Legendre_eq
#print axioms I3.GoBridge.ffg_Element_Sqrt_eq
