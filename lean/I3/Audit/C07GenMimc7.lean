/-
  I3.Audit.C07GenMimc7 — axiom audit of every property theorem of I3.Props.C07GenMimc7 (parsed by the checker).
-/
import I3.Props.C07GenMimc7
#print axioms I3.Props.C07GenMimc7.checkBigIntInField_iff
#print axioms I3.Props.C07GenMimc7.checkBigIntArrayInField_iff
#print axioms I3.Props.C07GenMimc7.mimc7_Hash_ok_iff
#print axioms I3.Props.C07GenMimc7.mimc7_Hash_reject
#print axioms I3.Props.C07GenMimc7.mimc7_Hash_outcomes
#print axioms I3.Props.C07GenMimc7.mimc7_Hash_err_iff
#print axioms I3.Props.C07GenMimc7.mimc7_HashGeneric_ok_iff
#print axioms I3.Props.C07GenMimc7.mimc7_HashGeneric_reject
#print axioms I3.Props.C07GenMimc7.mimc7_HashGeneric_outcomes
#print axioms I3.Props.C07GenMimc7.mimc7_HashBytes_ok
#print axioms I3.Props.C07GenMimc7.mimc7_HashBytes_err
#print axioms I3.Props.C07GenMimc7.mimc7_no_alias
#print axioms I3.Props.C07GenMimc7.mimc7_generic_no_alias
#print axioms I3.Props.C07GenMimc7.hMimc7_eq
#print axioms I3.Props.C07GenMimc7.hMimc7_isSome_iff
