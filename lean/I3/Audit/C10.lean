/-
  I3.Audit.C10 — axiom audit of every property theorem of I3.Props.C10 (parsed by the checker).
-/
import I3.Props.C10
#print axioms I3.Props.C10.params
#print axioms I3.Props.C10.gp_eq
#print axioms I3.Props.C10.mds_eq
#print axioms I3.Props.C10.mix_is_refM
#print axioms I3.Props.C10.tables_ok
#print axioms I3.Props.C10.permute_eq_reference
#print axioms I3.Props.C10.hash_spec
#print axioms I3.Props.C10.hash_length
#print axioms I3.Props.C10.hash_canonical
#print axioms I3.Props.C10.hash_mod
#print axioms I3.Props.C10.hash_driver
#print axioms I3.Props.C10.refK_shape
#print axioms I3.Props.C10.refK_round0
#print axioms I3.Props.C10.refK_round1_head
#print axioms I3.Props.C10.refK_round1
#print axioms I3.Props.C10.refK_rounds23
#print axioms I3.Props.C10.refK_last3
#print axioms I3.Props.C10.kat_zero
#print axioms I3.Props.C10.kat_one
#print axioms I3.Props.C10.kat_pm1
#print axioms I3.Props.C10.kat_mixed
#print axioms I3.Props.C10.kat_zero_wrong_matrix
#print axioms I3.Props.C10.hash_kat_zero
#print axioms I3.Props.C10.hash_kat_one
#print axioms I3.Props.C10.hash_kat_pm1
#print axioms I3.Props.C10.hash_kat_p
#print axioms I3.Props.C10.hash_kat_mixed
