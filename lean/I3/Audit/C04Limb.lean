/-
  I3.Audit.C04Limb — axiom audit of every property theorem of I3.Props.C04Limb (parsed by the checker).
-/
import I3.Props.C04Limb
#print axioms I3.Props.C04Limb.inverse_rep
#print axioms I3.Props.C04Limb.Aff_rep
#print axioms I3.Props.C04Limb.Dff_rep
#print axioms I3.Props.C04Limb.NewPointProjective_rep
#print axioms I3.Props.C04Limb.Projective_rep
#print axioms I3.Props.C04Limb.Add_rep
#print axioms I3.Props.C04Limb.Add_receiver
#print axioms I3.Props.C04Limb.Affine_eq
#print axioms I3.Props.C04Limb.addL_eq
#print axioms I3.Props.C04Limb.Mul_limb_eq
#print axioms I3.Props.C04Limb.mulL_eq
#print axioms I3.Props.C04Limb.InSubGroup_limb_eq
#print axioms I3.Props.C04Limb.PrivKeyScalar_Public_limb_eq
#print axioms I3.Props.C04Limb.PrivateKey_Public_limb_eq
#print axioms I3.Props.C04Limb.SignMimc7_limb_eq
#print axioms I3.Props.C04Limb.SignPoseidon_limb_eq
#print axioms I3.Props.C04Limb.VerifyMimc7_limb_eq
#print axioms I3.Props.C04Limb.VerifyPoseidon_limb_eq
#print axioms I3.Props.C04Limb.add_correct
#print axioms I3.Props.C04Limb.add_correct_int
#print axioms I3.Props.C04Limb.mul_correct
#print axioms I3.Props.C04Limb.mul_correct_int
#print axioms I3.Props.C04Limb.mul_correct_nonneg
#print axioms I3.Props.C04Limb.mul_eq_oracle
#print axioms I3.Props.C04Limb.mul_order
#print axioms I3.Props.C04Limb.mul_b8
#print axioms I3.Props.C04Limb.mul_subOrder_b8
