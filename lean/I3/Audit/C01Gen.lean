/-
  I3.Audit.C01Gen — axiom audit of every property theorem of I3.Props.C01Gen (parsed by the checker).
-/
import I3.Props.C01Gen
#print axioms I3.Props.C01Gen.poseidon_eq_reference
#print axioms I3.Props.C01Gen.poseidon_spec
#print axioms I3.Props.C01Gen.hashEx_spec
#print axioms I3.Props.C01Gen.hash_eq_reference
#print axioms I3.Props.C01Gen.hash_spec
#print axioms I3.Props.C01Gen.poseidon_output_lt_q
#print axioms I3.Props.C01Gen.vector_1_2
#print axioms I3.Props.C01Gen.hash_vector_1_2
