/-
  I3.Audit.C17Machine — axiom audit of every property theorem of I3.Props.C17Machine (parsed by
  the checker), followed by the theorems of the concrete non-vacuity instance.
-/
import I3.Props.C17Machine
#print axioms I3.Props.C17.race_free
#print axioms I3.Props.C17.schedule_independent
#print axioms I3.Props.C17.result_alone
#print axioms I3.Props.C17.globals_constant
#print axioms I3.Props.C17.final_values_independent
#print axioms I3.Props.C17.addTo_ok
#print axioms I3.Props.C17.exOk
#print axioms I3.Props.C17.exS0_wf
