import I3.Props.C15Pin
#print axioms I3.Props.C15.source_pinned
#print axioms I3.Props.C15.function_set_pinned
