/-
  I3.Audit.C15Safe — axiom audit of every property theorem of I3.Props.C15Safe (parsed by the checker).
-/
import I3.Props.C15Safe
#print axioms I3.Props.C15Safe.utils_HexDecodeInto_ok_true
#print axioms I3.Props.C15Safe.utils_HexDecode_ok_true
#print axioms I3.Props.C15Safe.utils_HexEncode_ok_true
#print axioms I3.Props.C15Safe.utils_Hex_MarshalText_ok_true
#print axioms I3.Props.C15Safe.utils_Hex_String_ok_true
#print axioms I3.Props.C15Safe.utils_SwapEndianness_ok_true
#print axioms I3.Props.C15Safe.utils_BigIntLEBytes_ok_true
#print axioms I3.Props.C15Safe.utils_SetBigIntFromLEBytes_ok_true
#print axioms I3.Props.C15Safe.babyjub_Point_Compress_ok_true
#print axioms I3.Props.C15Safe.babyjub_PackSignY_ok_true
#print axioms I3.Props.C15Safe.babyjub_UnpackSignY_ok_true
#print axioms I3.Props.C15Safe.babyjub_PointFromSignAndY_ok_true
#print axioms I3.Props.C15Safe.babyjub_Point_Decompress_ok_true
#print axioms I3.Props.C15Safe.babyjub_Point_Decompress_ok_iff
#print axioms I3.Props.C15Safe.babyjub_PublicKeyComp_Decompress_ok_true
#print axioms I3.Props.C15Safe.babyjub_PublicKey_Compress_ok_true
#print axioms I3.Props.C15Safe.babyjub_PublicKey_MarshalText_ok_true
#print axioms I3.Props.C15Safe.babyjub_PublicKey_String_ok_true
#print axioms I3.Props.C15Safe.babyjub_PublicKey_Value_ok_true
#print axioms I3.Props.C15Safe.babyjub_PublicKey_UnmarshalText_ok_true
#print axioms I3.Props.C15Safe.babyjub_PublicKey_Scan_ok_true
#print axioms I3.Props.C15Safe.babyjub_PublicKeyComp_MarshalText_ok_true
#print axioms I3.Props.C15Safe.babyjub_PublicKeyComp_String_ok_true
#print axioms I3.Props.C15Safe.babyjub_PublicKeyComp_Value_ok_true
#print axioms I3.Props.C15Safe.babyjub_PublicKeyComp_UnmarshalText_ok_true
#print axioms I3.Props.C15Safe.babyjub_PublicKeyComp_Scan_ok_true
#print axioms I3.Props.C15Safe.babyjub_Signature_Compress_ok_true
#print axioms I3.Props.C15Safe.babyjub_Signature_Value_ok_true
#print axioms I3.Props.C15Safe.babyjub_Signature_Decompress_ok_true
#print axioms I3.Props.C15Safe.babyjub_Signature_Decompress_ok_iff
#print axioms I3.Props.C15Safe.babyjub_SignatureComp_Decompress_ok_true
#print axioms I3.Props.C15Safe.babyjub_Signature_Scan_ok_true
#print axioms I3.Props.C15Safe.babyjub_SignatureComp_MarshalText_ok_true
#print axioms I3.Props.C15Safe.babyjub_SignatureComp_String_ok_true
#print axioms I3.Props.C15Safe.babyjub_SignatureComp_Value_ok_true
#print axioms I3.Props.C15Safe.babyjub_SignatureComp_UnmarshalText_ok_true
#print axioms I3.Props.C15Safe.babyjub_SignatureComp_Scan_ok_true
#print axioms I3.Props.C15Safe.babyjub_DecompressSig_ok_true
