import I3.Props.C09Gen
#print axioms I3.Props.C09Gen.ffg_Element_Inverse_eq_prim
#print axioms I3.Props.C09Gen.ffg_Inverse_correct
#print axioms I3.Props.C09Gen.ffg_Inverse_zero
#print axioms I3.Props.C09Gen.ffg_Inverse_mul_cancel
#print axioms I3.Props.C09Gen.ffg_Halve_eq
#print axioms I3.Props.C09Gen.ffg_Halve_correct
