/-
  I3.Audit.C12 — axiom audit of every property theorem of I3.Props.C12 (parsed by the checker).
-/
import I3.Props.C12
#print axioms I3.Props.C12.prune_eq_clamp
#print axioms I3.Props.C12.prune_length
#print axioms I3.Props.C12.clamp_bits
#print axioms I3.Props.C12.skToBigInt_eq
#print axioms I3.Props.C12.eight_mul_skToBigInt
#print axioms I3.Props.C12.skToBigInt_range
#print axioms I3.Props.C12.publicKey_eq
#print axioms I3.Props.C12.publicKey_valid
#print axioms I3.Props.C12.publicKey_order
#print axioms I3.Props.C12.publicKey_inSubGroup
#print axioms I3.Props.C12.publicKey_eq_zero_iff
#print axioms I3.Props.C12.publicKey_roundtrip
#print axioms I3.Props.C12.blake_length
#print axioms I3.Props.C12.publicKey_inSubGroup_inst
#print axioms I3.Props.C12.skToBigInt_range_inst
