/-
  I3.Audit.C20 — axiom audit of the C20 property theorems.  Every line must report a subset of
  {propext, Classical.choice, Quot.sound}.
-/
import I3.Props.C20

#print axioms I3.Props.C20.keccak_stream_eq
#print axioms I3.Props.C20.keccak_split_independent
#print axioms I3.Props.C20.keccak_no_slice
#print axioms I3.Props.C20.keccak_empty_slices_irrelevant
#print axioms I3.Props.C20.keccak_filter_empty
#print axioms I3.Props.C20.keccak_all_empty
#print axioms I3.Props.C20.keccak_single
#print axioms I3.Props.C20.keccak_digest_length
#print axioms I3.Props.C20.keccak_buffer_invariant
#print axioms I3.Props.C20.blake_stream_eq_all
#print axioms I3.Props.C20.blake_stream_eq
#print axioms I3.Props.C20.blake_digest_length
#print axioms I3.Props.C20.blake_bitlen_exact
