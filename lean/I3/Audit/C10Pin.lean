import I3.Props.C10Pin
#print axioms I3.Props.C10.source_pinned
#print axioms I3.Props.C10.function_set_pinned
