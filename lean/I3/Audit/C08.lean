/-
  I3.Audit.C08 — axiom audit of every property theorem of I3.Props.C08 (parsed by the checker).
-/
import I3.Props.C08
#print axioms I3.Props.C08.pow7_eq
#print axioms I3.Props.C08.getConstants_eq
#print axioms I3.Props.C08.getConstants_length
#print axioms I3.Props.C08.getConstants_getElem
#print axioms I3.Props.C08.cst_lt
#print axioms I3.Props.C08.digest_length
#print axioms I3.Props.C08.digest_fillBytes
#print axioms I3.Props.C08.cst_succ
#print axioms I3.Props.C08.mimc7HashGeneric_eq
#print axioms I3.Props.C08.mimc7HashGeneric_eq_nat
#print axioms I3.Props.C08.nRounds_eq
#print axioms I3.Props.C08.seed_eq
#print axioms I3.Props.C08.mimcCts_eq
#print axioms I3.Props.C08.mimc7Hash_eq
#print axioms I3.Props.C08.mimc7Hash_eq_nat
#print axioms I3.Props.C08.mimc7Hash_eq_generic
#print axioms I3.Props.C08.mimc7_lt
#print axioms I3.Props.C08.mimc7HashGeneric_lt
#print axioms I3.Props.C08.mimc7Hash_lt
#print axioms I3.Props.C08.mimc7_mod
#print axioms I3.Props.C08.hash_eq
#print axioms I3.Props.C08.hash_eq_spec
#print axioms I3.Props.C08.hash_nil
#print axioms I3.Props.C08.hash_canonical
#print axioms I3.Props.C08.hash_spec
#print axioms I3.Props.C08.hashGeneric_eq
#print axioms I3.Props.C08.hashGeneric_eq_spec
#print axioms I3.Props.C08.hashGeneric_nil
#print axioms I3.Props.C08.hashGeneric_canonical
#print axioms I3.Props.C08.hashGeneric_spec
#print axioms I3.Props.C08.chunks31_nil
#print axioms I3.Props.C08.chunks31_flatten
#print axioms I3.Props.C08.chunks31_length
#print axioms I3.Props.C08.chunks31_eq_spec
#print axioms I3.Props.C08.chunks31_getElem
#print axioms I3.Props.C08.chunks31_lengths
#print axioms I3.Props.C08.hashBytes_eq
#print axioms I3.Props.C08.chunk_lt
#print axioms I3.Props.C08.hashBytes_ok
#print axioms I3.Props.C08.hashBytes_spec
#print axioms I3.Props.C08.getConstants_two
