import I3.Props.C20Gen
#print axioms I3.Props.C20Gen.forRange_idx_foldl
#print axioms I3.Props.C20Gen.keccak_gen_eq_stream
#print axioms I3.Props.C20Gen.keccak_gen_eq
#print axioms I3.Props.C20Gen.keccak_extern_justified
#print axioms I3.Props.C20Gen.keccak_gen_split_independent
#print axioms I3.Props.C20Gen.keccak_gen_digest_length
#print axioms I3.Props.C20Gen.blake_gen_eq
#print axioms I3.Props.C20Gen.blake_extern_justified
#print axioms I3.Props.C20Gen.blake_gen_digest_length
