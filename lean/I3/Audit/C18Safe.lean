/-
  I3.Audit.C18Safe — axiom audit of every property theorem of I3.Props.C18Safe (parsed by the checker).
-/
import I3.Props.C18Safe
#print axioms I3.Props.C18Safe.ff_Element_Div_ok_true
#print axioms I3.Props.C18Safe.ff_Element_Exp_ok_true
#print axioms I3.Props.C18Safe.ff_BatchInvert_ok_true
#print axioms I3.Props.C18Safe.ff_Element_Legendre_ok_true
#print axioms I3.Props.C18Safe.ff_Element_Sqrt_ok_true
#print axioms I3.Props.C18Safe.ffg_Element_Div_ok_true
#print axioms I3.Props.C18Safe.ffg_Element_Halve_ok_true
#print axioms I3.Props.C18Safe.ffg_Element_Inverse_ok_true
#print axioms I3.Props.C18Safe.ffg_Element_Exp_ok_true
#print axioms I3.Props.C18Safe.ffg_BatchInvert_ok_true
#print axioms I3.Props.C18Safe.ffg_Element_Legendre_ok_true
#print axioms I3.Props.C18Safe.ffg_Element_Sqrt_ok_true
