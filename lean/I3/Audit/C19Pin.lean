import I3.Props.C19Pin
#print axioms I3.Props.C19.source_pinned
#print axioms I3.Props.C19.function_set_pinned
