/-
  I3.Audit.C07 — axiom audit of every property theorem of I3.Props.C07 (parsed by the checker).
-/
import I3.Props.C07
#print axioms I3.Props.C07.poseidon_badLen
#print axioms I3.Props.C07.poseidon_notInField
#print axioms I3.Props.C07.poseidon_badNOuts
#print axioms I3.Props.C07.poseidon_stateNotInField
#print axioms I3.Props.C07.poseidon_ok_iff
#print axioms I3.Props.C07.poseidon_no_tablePanic
#print axioms I3.Props.C07.poseidon_ok_length
#print axioms I3.Props.C07.poseidon_ok_canonical
#print axioms I3.Props.C07.inst_tablesPresent
#print axioms I3.Props.C07.poseidonEx_ok_iff
#print axioms I3.Props.C07.constants_q_eq
#print axioms I3.Props.C07.mimc7_hash_ok_iff
#print axioms I3.Props.C07.mimc7_hash_reject
#print axioms I3.Props.C07.mimc7_hashGeneric_ok_iff
#print axioms I3.Props.C07.mimc7_hashGeneric_reject
#print axioms I3.Props.C07.mimc7_hashBytes_ok
#print axioms I3.Props.C07.no_alias_mod
#print axioms I3.Props.C07.poseidon_no_alias
#print axioms I3.Props.C07.mimc7_no_alias
