/-
  I3.Audit.C06 — axiom audit of every property theorem of I3.Props.C06 (parsed by the checker).
-/
import I3.Props.C06
#print axioms I3.Props.C06.sqrtQ_spec
#print axioms I3.Props.C06.compress_format
#print axioms I3.Props.C06.compress_bytes
#print axioms I3.Props.C06.decompress_compress
#print axioms I3.Props.C06.decompress_sound
#print axioms I3.Props.C06.decompress_sound_point
#print axioms I3.Props.C06.decompress_injective
#print axioms I3.Props.C06.decompress_yTooBig
#print axioms I3.Props.C06.decompress_notSquare
#print axioms I3.Props.C06.decompress_signOfZero
#print axioms I3.Props.C06.divZero_unreachable
#print axioms I3.Props.C06.decompress_ok_iff
#print axioms I3.Props.C06.compress_injective
#print axioms I3.Props.C06.decompress_ok_unique
#print axioms I3.Props.C06.sigDecompress_sigCompress_point
#print axioms I3.Props.C06.unmarshalPublicKey_marshalPublicKey_point
#print axioms I3.Props.C06.unmarshalPublicKey_marshalPublicKey0x_point
#print axioms I3.Props.C06.scanPublicKey_compress_point
#print axioms I3.Props.C06.scanSignature_sigCompress_point
#print axioms I3.Props.C06.decompressSigText_hexEncode_point
#print axioms I3.Props.C06.decompress_compress_inst
#print axioms I3.Props.C06.decompress_sound_inst
