import I3.Props.C12Pin
#print axioms I3.Props.C12.source_pinned
#print axioms I3.Props.C12.function_set_pinned
