import I3.Props.C11Pin
#print axioms I3.Props.C11.source_pinned
#print axioms I3.Props.C11.function_set_pinned
