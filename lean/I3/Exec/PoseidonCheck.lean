/-
  I3.Exec.PoseidonCheck — executable, kernel-friendly checker of the relation system that makes the
  optimised Poseidon loop of /repo/poseidon/poseidon.go (tables C, S, M, P; sparse partial rounds)
  equal to the textbook Hades permutation with round constants `K` and MDS matrix `Mref`.

  Core Lean only.  Matrices are `List (List Nat)` (row-major), vectors `List Nat`, arithmetic mod `m`.

  Relations checked by `checkAll` (t = width, rp = number of partial rounds, c_k = C[k·t ..(k+1)·t),
  K_r = K[r·t ..(r+1)·t), Go `mix` multiplies by the transpose of the stored matrix):
    (R1) (Go M)ᵀ = Mref
    (R2) c_0 = K_0;  Mref·c_{i+1} = K_{i+1}                      (i = 0,1,2)
    (R3) witnesses (A_j, b_j), j = 0..rp:  A_rp = I, b_rp = −K_{4+rp};
         A_0·(Go P)ᵀ = Mref;  Mref·c_4 = −b_0;  and for j < rp
           row 0 and column 0 of A_j are e_0;  (b_j + K_{4+j})_0 = 0;
           Mref·A_j = A_{j+1}·Sp_j;
           Mref·(b_j + K_{4+j}) = C[5t+j]·(A_{j+1}·Sp_j·e_0) + b_{j+1}
    (R4) Mref·C[5t+rp+i·t ..) = K_{4+rp+1+i}                     (i = 0,1,2)
  `Sp_j` is the sparse matrix of partial round j (`sparse`).

  The witnesses are PROPOSED by `computeWitnesses` (Gauss–Jordan inverse of `Mref` and the backward
  chain A_j = Mref⁻¹·(A_{j+1}·Sp_j)); the soundness theorem (I3.Lemmas.PoseidonRefine) is about
  `checkAll` with ARBITRARY witnesses, so nothing depends on `matInv`/`computeWitnesses` being right.

  Kernel evaluation (`decide +kernel`) has no sharing: a term substituted in several places is
  re-evaluated in each.  Every intermediate vector/matrix that is used more than once is therefore
  first evaluated to literals by the continuation-passing `forceNat/forceVec/forceMat/forceWs`
  (semantically the identity: `forceX x k = k x`).
-/
import I3.Model.Poseidon
namespace I3.PoseidonCheck
open I3.Model.Poseidon (Tables)

abbrev Vec := List Nat
abbrev Mat := List (List Nat)

/-! ### forcing (identity functions that make the kernel evaluate their argument once) -/

def forceNat {α : Type} (x : Nat) (k : Nat → α) : α :=
  match x with
  | 0 => k 0
  | n+1 => k (n+1)

def forceVec {α : Type} : List Nat → (List Nat → α) → α
  | [], k => k []
  | x :: xs, k => forceNat x fun x' => forceVec xs fun xs' => k (x' :: xs')

def forceMat {α : Type} : List (List Nat) → (List (List Nat) → α) → α
  | [], k => k []
  | r :: rs, k => forceVec r fun r' => forceMat rs fun rs' => k (r' :: rs')

def forceWs {α : Type} : List (Mat × Vec) → (List (Mat × Vec) → α) → α
  | [], k => k []
  | w :: ws, k => forceMat w.1 fun A => forceVec w.2 fun b => forceWs ws fun ws' => k ((A, b) :: ws')

/-! ### vectors and matrices mod `m`
    Convention: the arguments of `dot/matVec/matMulT` are already forced. -/

def dotRaw : List Nat → List Nat → Nat
  | x :: xs, y :: ys => x * y + dotRaw xs ys
  | _, _ => 0

def dot (m : Nat) (a b : Vec) : Nat := dotRaw a b % m

def matVec (m : Nat) (A : Mat) (v : Vec) : Vec := A.map fun r => dot m r v

/-- `A · BTᵀ` (rows of `A` against rows of `BT`). -/
def matMulT (m : Nat) (A BT : Mat) : Mat := A.map fun r => BT.map fun c => dot m r c

def transpose (t : Nat) (A : Mat) : Mat := (List.range t).map fun i => A.map fun r => r.getD i 0

/-- `A · B` for matrices with `t` columns in `B`. -/
def matMul (m t : Nat) (A B : Mat) : Mat := forceMat (transpose t B) fun BT => matMulT m A BT

def unitVec (t i : Nat) : Vec := (List.range t).map fun k => if k = i then 1 else 0

def identity (t : Nat) : Mat := (List.range t).map fun i => unitVec t i

def addVec (m : Nat) (a b : Vec) : Vec := List.zipWith (fun x y => (x + y) % m) a b

def negVec (m : Nat) (a : Vec) : Vec := a.map fun x => (m - x % m) % m

def subVec (m : Nat) (a b : Vec) : Vec := List.zipWith (fun x y => (x + (m - y % m)) % m) a b

def scaleVec (m c : Nat) (a : Vec) : Vec := a.map fun x => c * x % m

/-- `l[i .. i+n)`. -/
def seg (l : List Nat) (i n : Nat) : List Nat := (l.drop i).take n

/-- The sparse matrix of partial round `j`: row 0 is `S[base .. base+t)`, row `k ≥ 1` is
    `S[base+t+k−1]·e_0 + e_k`, with `base = (2t−1)·j`. -/
def sparse (t : Nat) (S : List Nat) (j : Nat) : Mat :=
  seg S ((t * 2 - 1) * j) t ::
    List.zipWith (fun s r => s :: r) (seg S ((t * 2 - 1) * j + t) (t - 1)) (identity (t - 1))

def eqVec : List Nat → List Nat → Bool
  | [], [] => true
  | x :: xs, y :: ys => Nat.beq x y && eqVec xs ys
  | _, _ => false

def eqMat : Mat → Mat → Bool
  | [], [] => true
  | x :: xs, y :: ys => eqVec x y && eqMat xs ys
  | _, _ => false

def isVec (m t : Nat) (v : Vec) : Bool := Nat.beq v.length t && v.all fun x => Nat.blt x m

def isMat (m t : Nat) (A : Mat) : Bool := Nat.beq A.length t && A.all (isVec m t)

/-! ### proposing the witnesses (no correctness claim is needed for these) -/

/-- `b ^ e % m` by square-and-multiply with fuel (`e < 2 ^ fuel`). -/
def powF (m : Nat) : Nat → Nat → Nat → Nat
  | 0, _, _ => 1 % m
  | f+1, b, e =>
    if e = 0 then 1 % m
    else forceNat (powF m f b (e / 2)) fun r =>
      if e % 2 = 1 then r * r % m * b % m else r * r % m

/-- Fermat inverse (prime `m`). -/
def invF (m x : Nat) : Nat := powF m (Nat.log2 m + 1) x (m - 2)

/-- One Gauss–Jordan step on column `c` of the augmented matrix (no pivot search: a zero pivot
    yields a wrong proposal, which `checkAll` then rejects). -/
def gjStep (m c : Nat) (rows : Mat) : Mat :=
  forceVec (rows.getD c []) fun p =>
  forceNat (invF m (p.getD c 0)) fun pinv =>
  forceVec (p.map fun x => x * pinv % m) fun pn =>
  rows.zipIdx.map fun ri =>
    if ri.2 = c then pn
    else forceNat (ri.1.getD c 0) fun f =>
      List.zipWith (fun x y => (x + (m - f * y % m)) % m) ri.1 pn

def gjLoop (m : Nat) : Nat → Nat → Mat → Mat
  | 0, _, rows => rows
  | n+1, c, rows => forceMat (gjStep m c rows) fun rows' => gjLoop m n (c + 1) rows'

/-- Inverse of a `t × t` matrix over the prime field `Z/m` by Gauss–Jordan elimination. -/
def matInv (m t : Nat) (A : Mat) : Mat :=
  forceMat (List.zipWith (· ++ ·) A (identity t)) fun aug =>
    (gjLoop m t 0 aug).map (List.drop t)

/-- Backward chain: from `(A_{j+1}, b_{j+1})` to `(A_j, b_j)`. -/
def witLoop (m t : Nat) (K C S : List Nat) (Minv : Mat) :
    Nat → Mat → Vec → List (Mat × Vec) → List (Mat × Vec)
  | 0, _, _, acc => acc
  | j+1, A', b', acc =>
    forceMat (sparse t S j) fun Sp =>
    forceMat (matMul m t A' Sp) fun ASp =>
    forceMat (matMul m t Minv ASp) fun A =>
    forceVec (addVec m (scaleVec m (C.getD ((4 + 1) * t + j) 0) (matVec m ASp (unitVec t 0))) b') fun rhs =>
    forceVec (subVec m (matVec m Minv rhs) (seg K ((4 + j) * t) t)) fun b =>
    witLoop m t K C S Minv j A b ((A, b) :: acc)

/-- The witnesses `(A_0,b_0), …, (A_rp,b_rp)` of relation (R3). -/
def computeWitnesses (m t rp : Nat) (K : List Nat) (Mref : Mat) (tab : Tables) : List (Mat × Vec) :=
  forceMat (matInv m t Mref) fun Minv =>
  forceVec (negVec m (seg K ((4 + rp) * t) t)) fun bl =>
  forceMat (identity t) fun I =>
  witLoop m t K tab.C tab.S Minv rp I bl [(I, bl)]

/-! ### the checker -/

/-- Relation (R3) for one partial round `j`: `w = (A_j, b_j)`, `w' = (A_{j+1}, b_{j+1})`. -/
def stepOk (m t : Nat) (K C S : List Nat) (Mref : Mat) (j : Nat) (w w' : Mat × Vec) : Bool :=
  forceVec (addVec m w.2 (seg K ((4 + j) * t) t)) fun β =>
  forceMat (sparse t S j) fun Sp =>
  forceMat (matMul m t w'.1 Sp) fun ASp =>
  eqVec (w.1.headD []) (unitVec t 0) && eqVec (w.1.map fun r => r.headD 0) (unitVec t 0) &&
  Nat.beq (β.headD 1) 0 &&
  eqMat (matMul m t Mref w.1) ASp &&
  eqVec (matVec m Mref β)
    (addVec m (scaleVec m (C.getD ((4 + 1) * t + j) 0) (matVec m ASp (unitVec t 0))) w'.2)

/-- (R3) along the list of witnesses, ending with `A_rp = I`, `b_rp = −K_{4+rp}`. -/
def chainOk (m t : Nat) (K C S : List Nat) (Mref : Mat) : Nat → Mat × Vec → List (Mat × Vec) → Bool
  | j, w, [] => eqMat w.1 (identity t) && eqVec w.2 (negVec m (seg K ((4 + j) * t) t))
  | j, w, w' :: rest => stepOk m t K C S Mref j w w' && chainOk m t K C S Mref (j + 1) w' rest

def checkAll (m t rp : Nat) (K : List Nat) (Mref : Mat) (tab : Tables) (ws : List (Mat × Vec)) : Bool :=
  forceWs ws fun ws =>
  -- shapes and ranges
  Nat.blt 0 t &&
  isMat m t Mref && isMat m t tab.M && isMat m t tab.P &&
  isVec m (8 * t + rp) tab.C && isVec m ((t * 2 - 1) * rp) tab.S && isVec m ((8 + rp) * t) K &&
  Nat.beq ws.length (rp + 1) && (ws.all fun w => isMat m t w.1 && isVec m t w.2) &&
  -- (R1)
  eqMat (transpose t tab.M) Mref &&
  -- (R2)
  eqVec (seg tab.C 0 t) (seg K 0 t) &&
  ((List.range 3).all fun i =>
    forceVec (seg tab.C ((i + 1) * t) t) fun c =>
      eqVec (matVec m Mref c) (seg K ((i + 1) * t) t)) &&
  -- (R4)
  ((List.range 3).all fun i =>
    forceVec (seg tab.C ((4 + 1) * t + rp + i * t) t) fun c =>
      eqVec (matVec m Mref c) (seg K ((4 + rp + (i + 1)) * t) t)) &&
  -- (R3)
  (match ws with
   | [] => false
   | w0 :: rest =>
     eqMat (matMulT m w0.1 tab.P) Mref &&
     (forceVec (seg tab.C (4 * t) t) fun c => eqVec (matVec m Mref c) (negVec m w0.2)) &&
     chainOk m t K tab.C tab.S Mref 0 w0 rest)

end I3.PoseidonCheck
