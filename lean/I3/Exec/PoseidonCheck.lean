/-
  I3.Exec.PoseidonCheck — executable, kernel-friendly checker of the relation system that makes the
  optimised Poseidon loop of /repo/poseidon/poseidon.go (tables C, S, M, P; sparse partial rounds)
  equal to the textbook Hades permutation with round constants `K` and MDS matrix `Mref`.

  Core Lean only.  Matrices are `List (List Nat)` (row-major), vectors `List Nat`, arithmetic mod `m`.

  Notation: t = width, rp = number of partial rounds, c_k = C[k·t ..(k+1)·t), K_r = K[r·t ..(r+1)·t);
  the Go `mix` multiplies by the TRANSPOSE of the stored matrix.  M̂ = Mref without row 0 / column 0,
  mrow = row 0 of Mref without its first entry, mcol = column 0 without its first entry.  The S table
  holds, for every partial round j, the `2t−1` numbers  s00_j, srow_j (t−1), scol_j (t−1)  of the sparse
  matrix  Sp_j = [[s00_j, srow_j], [scol_j, I]]  (`sparse`).

  Relations checked by `checkAll` (each by explicit products):
    (R1) (Go M)ᵀ = Mref
    (R2) c_0 = K_0;  Mref·c_{i+1} = K_{i+1}                      (i = 0,1,2)
    (R4) Mref·C[5t+rp+i·t ..) = K_{4+rp+1+i}                     (i = 0,1,2)
    (R3) witnesses: a matrix N̂ ((t−1)×(t−1)) and vectors b_0..b_rp with
           N̂·M̂ = I;   diag(1, N̂^rp)·(Go P)ᵀ = Mref;   Mref·c_4 = −b_0;   b_rp = −K_{4+rp};
         and for every j < rp
           s00_j = Mref[0][0];
           srow_j·M̂ = srow_{j+1}  (mrow if j = rp−1);
           M̂·scol_{j+1} = scol_j  (scol_{rp−1} = mcol);
           (b_j + K_{4+j})_0 = 0;   Mref·(b_j + K_{4+j}) = C[5t+j]·(Mref·e_0) + b_{j+1}.
  With A_j := diag(1, N̂^(rp−j)) these give  Mref·A_j = A_{j+1}·Sp_j, hence the invariant
  s_{4+j} = A_j·v_j + b_j between the reference state s and the Go state v (I3.Lemmas.PoseidonRefine).
  The cost is O(t²) per partial round plus O(log rp) matrix products (the matrices A_j are never formed).

  The witnesses are PROPOSED by `computeWitnesses` (Gauss–Jordan inverses); the soundness theorem is
  about `checkAll` with ARBITRARY witnesses, so nothing depends on `matInv`/`computeWitnesses` being right.

  Kernel evaluation (`decide +kernel`) has no sharing: a term substituted in several places is
  re-evaluated in each.  Every intermediate vector/matrix that is used more than once is therefore
  first evaluated to literals by the continuation-passing `forceNat/forceVec/forceMat/forceHead`
  (semantically the identity: `forceX x k = k x`), and the long tables are walked once
  (the chain threads `S.drop …`, `K.drop …`, `C.drop …`) instead of being indexed in every round.
-/
import I3.Model.Poseidon
namespace I3.PoseidonCheck
open I3.Model.Poseidon (Tables)

abbrev Vec := List Nat
abbrev Mat := List (List Nat)

/-! ### forcing (identity functions that make the kernel evaluate their argument once) -/

def forceNat {α : Type} (x : Nat) (k : Nat → α) : α :=
  match x with
  | 0 => k 0
  | n+1 => k (n+1)

def forceVec {α : Type} : List Nat → (List Nat → α) → α
  | [], k => k []
  | x :: xs, k => forceNat x fun x' => forceVec xs fun xs' => k (x' :: xs')

def forceMat {α : Type} : List (List Nat) → (List (List Nat) → α) → α
  | [], k => k []
  | r :: rs, k => forceVec r fun r' => forceMat rs fun rs' => k (r' :: rs')

/-- evaluate a list to weak head normal form (enough for a suffix of a literal list). -/
def forceHead {α : Type} (l : List Nat) (k : List Nat → α) : α :=
  match l with
  | [] => k []
  | x :: xs => k (x :: xs)

/-! ### vectors and matrices mod `m`
    Convention: the arguments of `dot/matVec/matMulT` are already forced. -/

def dotRaw : List Nat → List Nat → Nat
  | x :: xs, y :: ys => x * y + dotRaw xs ys
  | _, _ => 0

def dot (m : Nat) (a b : Vec) : Nat := dotRaw a b % m

def matVec (m : Nat) (A : Mat) (v : Vec) : Vec := A.map fun r => dot m r v

/-- `A · BTᵀ` (rows of `A` against rows of `BT`). -/
def matMulT (m : Nat) (A BT : Mat) : Mat := A.map fun r => BT.map fun c => dot m r c

def transpose (t : Nat) (A : Mat) : Mat := (List.range t).map fun i => A.map fun r => r.getD i 0

/-- `A · B` for matrices with `t` columns in `B`. -/
def matMul (m t : Nat) (A B : Mat) : Mat := forceMat (transpose t B) fun BT => matMulT m A BT

def unitVec (t i : Nat) : Vec := (List.range t).map fun k => if k = i then 1 else 0

def identity (t : Nat) : Mat := (List.range t).map fun i => unitVec t i

def addVec (m : Nat) (a b : Vec) : Vec := List.zipWith (fun x y => (x + y) % m) a b

def negVec (m : Nat) (a : Vec) : Vec := a.map fun x => (m - x % m) % m

def subVec (m : Nat) (a b : Vec) : Vec := List.zipWith (fun x y => (x + (m - y % m)) % m) a b

def scaleVec (m c : Nat) (a : Vec) : Vec := a.map fun x => c * x % m

/-- `l[i .. i+n)`. -/
def seg (l : List Nat) (i n : Nat) : List Nat := (l.drop i).take n

/-- The sparse matrix of partial round `j`: row 0 is `S[base .. base+t)`, row `k ≥ 1` is
    `S[base+t+k−1]·e_0 + e_k`, with `base = (2t−1)·j`.  (Not evaluated by `checkAll`; it is the matrix
    by which `Model.Poseidon.partialRound` is shown to act, see `toVec_partialRound`.) -/
def sparse (t : Nat) (S : List Nat) (j : Nat) : Mat :=
  seg S ((t * 2 - 1) * j) t ::
    List.zipWith (fun s r => s :: r) (seg S ((t * 2 - 1) * j + t) (t - 1)) (identity (t - 1))

def eqVec : List Nat → List Nat → Bool
  | [], [] => true
  | x :: xs, y :: ys => Nat.beq x y && eqVec xs ys
  | _, _ => false

def eqMat : Mat → Mat → Bool
  | [], [] => true
  | x :: xs, y :: ys => eqVec x y && eqMat xs ys
  | _, _ => false

def isVec (m t : Nat) (v : Vec) : Bool := Nat.beq v.length t && v.all fun x => Nat.blt x m

def isMat (m t : Nat) (A : Mat) : Bool := Nat.beq A.length t && A.all (isVec m t)

/-- `A` without its first row and first column. -/
def subMat (A : Mat) : Mat := A.tail.map List.tail

/-- `diag(1, X)` for an `n × n` matrix `X`. -/
def diagBlock (n : Nat) (X : Mat) : Mat := (1 :: List.replicate n 0) :: X.map fun r => 0 :: r

/-- `A ^ e` for an `n × n` matrix by square-and-multiply with fuel (`e < 2 ^ fuel`). -/
def powMatF (m n : Nat) (A : Mat) : Nat → Nat → Mat
  | 0, _ => identity n
  | f+1, e =>
    if e = 0 then identity n
    else forceMat (powMatF m n A f (e / 2)) fun R =>
      forceMat (matMul m n R R) fun R2 =>
        if e % 2 = 1 then matMul m n R2 A else R2

/-! ### proposing the witnesses (no correctness claim is needed for these) -/

/-- `b ^ e % m` by square-and-multiply with fuel (`e < 2 ^ fuel`). -/
def powF (m : Nat) : Nat → Nat → Nat → Nat
  | 0, _, _ => 1 % m
  | f+1, b, e =>
    if e = 0 then 1 % m
    else forceNat (powF m f b (e / 2)) fun r =>
      if e % 2 = 1 then r * r % m * b % m else r * r % m

/-- Fermat inverse (prime `m`). -/
def invF (m x : Nat) : Nat := powF m (Nat.log2 m + 1) x (m - 2)

/-- One Gauss–Jordan step on column `c` of the augmented matrix (no pivot search: a zero pivot
    yields a wrong proposal, which `checkAll` then rejects). -/
def gjStep (m c : Nat) (rows : Mat) : Mat :=
  forceVec (rows.getD c []) fun p =>
  forceNat (invF m (p.getD c 0)) fun pinv =>
  forceVec (p.map fun x => x * pinv % m) fun pn =>
  rows.zipIdx.map fun ri =>
    if ri.2 = c then pn
    else forceNat (ri.1.getD c 0) fun f =>
      List.zipWith (fun x y => (x + (m - f * y % m)) % m) ri.1 pn

def gjLoop (m : Nat) : Nat → Nat → Mat → Mat
  | 0, _, rows => rows
  | n+1, c, rows => forceMat (gjStep m c rows) fun rows' => gjLoop m n (c + 1) rows'

/-- Inverse of a `t × t` matrix over the prime field `Z/m` by Gauss–Jordan elimination. -/
def matInv (m t : Nat) (A : Mat) : Mat :=
  forceMat (List.zipWith (· ++ ·) A (identity t)) fun aug =>
    (gjLoop m t 0 aug).map (List.drop t)

/-- rows `K_4 … K_{4+n-1}` paired with `C[5t] … C[5t+n-1]`, in REVERSE order (one walk of the tables). -/
def revRows (t : Nat) : Nat → List Nat → List Nat → List (Vec × Nat) → List (Vec × Nat)
  | 0, _, _, acc => acc
  | n+1, Krest, Crest, acc =>
    forceHead (Krest.drop t) fun Knext =>
    forceHead Crest.tail fun Cnext =>
    forceVec (Krest.take t) fun row =>
    revRows t n Knext Cnext ((row, Crest.headD 0) :: acc)

/-- Backward chain `b_j = Mref⁻¹·b_{j+1} + C[5t+j]·e_0 − K_{4+j}`. -/
def bLoop (m t : Nat) (Minv : Mat) : List (Vec × Nat) → Vec → List Vec → List Vec
  | [], _, acc => acc
  | (row, c) :: rows, b', acc =>
    forceVec (subVec m (addVec m (matVec m Minv b') (scaleVec m c (unitVec t 0))) row) fun b =>
    bLoop m t Minv rows b (b :: acc)

/-- The witnesses `(N̂, [b_0, …, b_rp])` of relation (R3). -/
def computeWitnesses (m t rp : Nat) (K : List Nat) (Mref : Mat) (tab : Tables) : Mat × List Vec :=
  forceMat (matInv m t Mref) fun Minv =>
  forceMat (matInv m (t - 1) (subMat Mref)) fun Nhat =>
  forceVec (negVec m (seg K ((4 + rp) * t) t)) fun bl =>
  (Nhat, bLoop m t Minv (revRows t rp (K.drop (4 * t)) (tab.C.drop ((4 + 1) * t)) []) bl [bl])

/-! ### the checker -/

/-- Relation (R3) for one partial round: `Srest = S.drop ((2t−1)·j)`, `Krest = K.drop ((4+j)·t)`,
    `Crest = C.drop (5t+j)`, `Snext = S.drop ((2t−1)·(j+1))`; `last` iff `j = rp − 1`. -/
def stepOk (m t : Nat) (Mref Mhat MhatT : Mat) (mrow mcol col0 : Vec) (m00 : Nat) (last : Bool)
    (Srest Snext Krest Crest : List Nat) (b b' : Vec) : Bool :=
  forceVec (seg Srest 1 (t - 1)) fun srow =>
  forceVec (seg Srest t (t - 1)) fun scol =>
  forceVec (addVec m b (Krest.take t)) fun β =>
  Nat.beq (Srest.headD 0) m00 &&
  eqVec (matVec m MhatT srow) (if last then mrow else seg Snext 1 (t - 1)) &&
  (if last then eqVec scol mcol
    else forceVec (seg Snext t (t - 1)) fun scol' => eqVec (matVec m Mhat scol') scol) &&
  Nat.beq (β.headD 1) 0 &&
  eqVec (matVec m Mref β) (addVec m (scaleVec m (Crest.headD 0) col0) b')

/-- (R3) along the list of the `b_j`, ending with `b_rp = −K_{4+rp}`. -/
def chainOk (m t : Nat) (Mref Mhat MhatT : Mat) (mrow mcol col0 : Vec) (m00 : Nat) :
    List Nat → List Nat → List Nat → Vec → List Vec → Bool
  | _, Krest, _, b, [] => eqVec b (negVec m (Krest.take t))
  | Srest, Krest, Crest, b, b' :: rest =>
    forceHead (Srest.drop (t * 2 - 1)) fun Snext =>
    forceHead (Krest.drop t) fun Knext =>
    forceHead Crest.tail fun Cnext =>
    stepOk m t Mref Mhat MhatT mrow mcol col0 m00 rest.isEmpty Srest Snext Krest Crest b b' &&
      chainOk m t Mref Mhat MhatT mrow mcol col0 m00 Snext Knext Cnext b' rest

def checkAll (m t rp : Nat) (K : List Nat) (Mref : Mat) (tab : Tables) (ws : Mat × List Vec) : Bool :=
  forceMat ws.1 fun Nhat =>
  forceMat ws.2 fun bs =>
  -- shapes and ranges
  Nat.blt 0 t &&
  isMat m t Mref && isMat m t tab.M && isMat m t tab.P &&
  isVec m (8 * t + rp) tab.C && isVec m ((t * 2 - 1) * rp) tab.S && isVec m ((8 + rp) * t) K &&
  isMat m (t - 1) Nhat && Nat.beq bs.length (rp + 1) && (bs.all fun b => isVec m t b) &&
  -- (R1)
  eqMat (transpose t tab.M) Mref &&
  -- (R2)
  eqVec (seg tab.C 0 t) (seg K 0 t) &&
  ((List.range 3).all fun i =>
    forceVec (seg tab.C ((i + 1) * t) t) fun c =>
      eqVec (matVec m Mref c) (seg K ((i + 1) * t) t)) &&
  -- (R4)
  ((List.range 3).all fun i =>
    forceVec (seg tab.C ((4 + 1) * t + rp + i * t) t) fun c =>
      eqVec (matVec m Mref c) (seg K ((4 + rp + (i + 1)) * t) t)) &&
  -- (R3)
  (forceMat (subMat Mref) fun Mhat =>
   forceMat (transpose (t - 1) Mhat) fun MhatT =>
   forceVec ((Mref.headD []).tail) fun mrow =>
   forceVec (Mref.tail.map fun r => r.headD 0) fun mcol =>
   forceVec (matVec m Mref (unitVec t 0)) fun col0 =>
   eqMat (matMul m (t - 1) Nhat Mhat) (identity (t - 1)) &&
   (forceMat (diagBlock (t - 1) (powMatF m (t - 1) Nhat (Nat.log2 rp + 1) rp)) fun A0 =>
      eqMat (matMulT m A0 tab.P) Mref) &&
   (match bs with
    | [] => false
    | b0 :: rest =>
      (forceVec (seg tab.C (4 * t) t) fun c => eqVec (matVec m Mref c) (negVec m b0)) &&
      (forceHead (K.drop (4 * t)) fun K4 =>
       forceHead (tab.C.drop ((4 + 1) * t)) fun C5 =>
       chainOk m t Mref Mhat MhatT mrow mcol col0 ((Mref.headD []).headD 0) tab.S K4 C5 b0 rest)))

end I3.PoseidonCheck
