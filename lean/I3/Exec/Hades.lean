/-
  I3.Exec.Hades — the textbook Hades/Poseidon permutation over Z/m: every round is
  AddRoundConstants, S-box (all lanes in the rf/2 first and last rounds, lane 0 otherwise),
  dense MDS multiplication.  Core-only reference; nothing from /repo.
-/
import I3.Exec.Field
import I3.Exec.Grain
namespace I3.Hades

def dot (m : Nat) (row v : List Nat) : Nat :=
  (List.zipWith (· * ·) row v).foldl (fun a b => (a + b) % m) 0

def matVec (m : Nat) (mat : List (List Nat)) (v : List Nat) : List Nat := mat.map fun row => dot m row v

def addVec (m : Nat) (a b : List Nat) : List Nat := List.zipWith (fun x y => (x + y) % m) a b

def sboxFull (m alpha : Nat) (v : List Nat) : List Nat := v.map fun x => powMod x alpha m

def sboxFirst (m alpha : Nat) : List Nat → List Nat
  | [] => []
  | x :: xs => powMod x alpha m :: xs

/-- One reference round `r` (0-based) on state `s`; `rc` are all round constants, round-major. -/
def round (m alpha t rf rp : Nat) (rc : List Nat) (mat : List (List Nat)) (s : List Nat) (r : Nat) : List Nat :=
  let s := addVec m s ((rc.drop (r * t)).take t)
  let s := if r < rf / 2 ∨ r ≥ rf / 2 + rp then sboxFull m alpha s else sboxFirst m alpha s
  matVec m mat s

def permute (m alpha t rf rp : Nat) (rc : List Nat) (mat : List (List Nat)) (s : List Nat) : List Nat :=
  (List.range (rf + rp)).foldl (round m alpha t rf rp rc mat) s

/-- Reference Poseidon over BN254: state `[cap, inputs…]`, x^5, 8 full rounds, circomlib schedule,
    Grain constants and Cauchy MDS. -/
def poseidonBN254 (p : Grain.Params) (state : List Nat) : List Nat :=
  permute q 5 p.t p.rf p.rp p.rc (Grain.mds q p) state

end I3.Hades
