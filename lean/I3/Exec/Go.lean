/-
  I3.Exec.Go — value-level semantics of the Go constructs and library calls that the source translator
  T6 (`tools/gengo`) emits.  Core-only (no Mathlib), executable.

  The translation is VALUE-semantic: a `*big.Int` is an `Int`, a `*ff.Element` / `*ffg.Element` is the
  canonical residue it represents (a `Nat`), a slice or array is a `List`, a struct is a tuple of its
  fields, `int` is `Int`, unsigned machine integers are `Nat`, `byte` is `UInt8`, `error` is
  `Option String` (the message constant), a `nil`-able pointer that the code compares with `nil` is an
  `Option`.  Writing through a pointer rebinds the variable that owns the cell.  What this cannot
  express (two names for one cell, nil dereference, index out of range: the functions below are total)
  is listed in DESIGN.md §3.1 (T6) — the regenerated definitions are executed against the compiled Go
  code on every run (`drivergen`), which is what validates these rules.
-/
import I3.Exec.Field
import I3.Exec.Bytes
namespace I3.Go

/-! ## int, slices -/

/-- `x[i]` (Go panics outside `0 ≤ i < len`; total here). -/
@[inline] def idx {α} [Inhabited α] (l : List α) (i : Int) : α := l.getD i.toNat default
/-- `x[i] = v`. -/
@[inline] def set {α} (l : List α) (i : Int) (v : α) : List α := l.set i.toNat v
/-- `len(x)`. -/
@[inline] def len {α} (l : List α) : Int := (l.length : Int)
/-- `x[lo:hi]`. -/
@[inline] def slice {α} (l : List α) (lo hi : Int) : List α := (l.take hi.toNat).drop lo.toNat
/-- `make([]T, n)` with the zero value of `T`. -/
@[inline] def make {α} [Inhabited α] (n : Int) : List α := List.replicate n.toNat default
/-- `copy(dst[lo:hi], src)`: the new contents of `dst`. -/
def copyInto {α} (dst : List α) (lo hi : Int) (src : List α) : List α :=
  let lo := lo.toNat
  let n := min (min hi.toNat dst.length - lo) src.length
  dst.take lo ++ src.take n ++ dst.drop (lo + n)
/-- Go's truncated integer division and remainder. -/
@[inline] def idiv (a b : Int) : Int := Int.tdiv a b
@[inline] def imodT (a b : Int) : Int := Int.tmod a b

/-- `for i := lo; i < hi; i++ { s = f i s }` with `hi` loop-invariant. -/
def forRange {σ} (lo hi : Int) (f : Int → σ → σ) (s : σ) : σ :=
  (List.range (hi - lo).toNat).foldl (fun s (k : Nat) => f (lo + (k : Int)) s) s

/-- the same loop when the body may `return`: the first component holds the returned value. -/
def forRangeRet {ρ σ} (lo hi : Int) (f : Int → σ → Option ρ × σ) (s : σ) : Option ρ × σ :=
  (List.range (hi - lo).toNat).foldl
    (fun (acc : Option ρ × σ) (k : Nat) => match acc.1 with
      | some _ => acc
      | none => f (lo + (k : Int)) acc.2) (none, s)

/-! ### checked variants (translator T6, `<name>_ok`): requirements -/
/-- the value that a computation collapses to when a requirement fails -/
class HasFail (α : Type) where
  fail : α
instance : HasFail Bool := ⟨false⟩
/-- inside a loop body of a checked variant: "return false from the function" -/
instance {σ} [Inhabited σ] : HasFail (Option Bool × σ) := ⟨(some false, default)⟩
/-- `req c k`: continue with `k` only if the requirement `c` holds -/
@[inline] def req {α} [HasFail α] (c : Bool) (k : α) : α := if c then k else HasFail.fail
/-- `x[i]` does not panic -/
@[inline] def inRange {α} (l : List α) (i : Int) : Bool := decide (0 ≤ i ∧ i < (l.length : Int))
/-- `x[lo:hi]` does not panic (judged against the length: for arrays exact, for slices conservative — Go allows
    `hi` up to the capacity) -/
@[inline] def sliceOk {α} (l : List α) (lo hi : Int) : Bool := decide (0 ≤ lo ∧ lo ≤ hi ∧ hi ≤ (l.length : Int))

/-- `forRange` variants whose body may return (or, in checked variants, fail) -/
def forRangeNRet {ρ σ} (lo hi : Nat) (f : Nat → σ → Option ρ × σ) (s : σ) : Option ρ × σ :=
  (List.range (hi - lo)).foldl
    (fun (acc : Option ρ × σ) (k : Nat) => match acc.1 with
      | some _ => acc
      | none => f (lo + k) acc.2) (none, s)
def forDownRet {ρ σ} (hi lo : Int) (f : Int → σ → Option ρ × σ) (s : σ) : Option ρ × σ :=
  (List.range (hi - lo + 1).toNat).foldl
    (fun (acc : Option ρ × σ) (k : Nat) => match acc.1 with
      | some _ => acc
      | none => f (hi - (k : Int)) acc.2) (none, s)

/-- the same with an unsigned loop variable. -/
def forRangeN {σ} (lo hi : Nat) (f : Nat → σ → σ) (s : σ) : σ :=
  (List.range (hi - lo)).foldl (fun s (k : Nat) => f (lo + k) s) s

/-- `for i := hi; i >= lo; i-- { s = f i s }`. -/
def forDown {σ} (hi lo : Int) (f : Int → σ → σ) (s : σ) : σ :=
  (List.range (hi - lo + 1).toNat).foldl (fun s (k : Nat) => f (hi - (k : Int)) s) s

/-- `for cond(s) { body }` without a syntactic bound, run with fuel.  `body` yields `(some r, s)` to return `r`
    from the enclosing function.  Result: (fuel exhausted, returned value, final state).  A function that
    contains such a loop reports exhaustion in its extra `terminated` result; the theorems about it show
    that this never happens. -/
def whileFuel {ρ σ} : Nat → (σ → Bool) → (σ → Option ρ × σ) → σ → Bool × Option ρ × σ
  | 0, cond, _, s => (cond s, none, s)
  | fuel + 1, cond, body, s =>
    if cond s then
      match body s with
      | (some r, s') => (false, some r, s')
      | (none, s') => whileFuel fuel cond body s'
    else (false, none, s)

/-- unsigned 64-bit addition and subtraction (wrap around). -/
@[inline] def u64add (a b : Nat) : Nat := (a + b) % 18446744073709551616
@[inline] def u64shl (a s : Nat) : Nat := (a <<< s) % 18446744073709551616
/-- `bits.Len64`. -/
def bitsLen64 (x : Nat) : Int := (I3.bitLen x : Nat)
/-- `bits.Add64(x, y, carry)` = (sum, carryOut). -/
def bitsAdd64 (x y c : Nat) : Nat × Nat := ((x + y + c) % 18446744073709551616, (x + y + c) / 18446744073709551616)
/-- `bits.Sub64(x, y, borrow)` = (diff, borrowOut). -/
def bitsSub64 (x y b : Nat) : Nat × Nat :=
  ((x + 18446744073709551616 - y % 18446744073709551616 - b % 2) % 18446744073709551616, if x < y + b then 1 else 0)
/-- `binary.BigEndian.PutUint64`: the eight bytes. -/
def be64 (v : Nat) : Bytes := natToBE 8 v
@[inline] def u64sub (a b : Nat) : Nat := (a + 18446744073709551616 - b % 18446744073709551616) % 18446744073709551616

/-- `panic(…)`: Go produces no value.  The translation is total, so a `default` stands in; every theorem about a
    function containing it shows the branch unreachable (or says on which inputs it is reached). -/
@[inline] def panic {α} [Inhabited α] : α := default

@[inline] def deref {α} [Inhabited α] (o : Option α) : α := o.getD default
@[inline] def strBytes (s : String) : Bytes := s.toUTF8.toList

/-! ## dynamically typed values (`interface{}`, `driver.Value`): the dynamic types the code distinguishes -/
inductive Any where
  | nil | int64 (v : Int) | float64 | bool (b : Bool) | bytes (b : Bytes) | string (s : String) | time
  | array32 (b : Bytes) | array64 (b : Bytes)
instance : Inhabited Any := ⟨.nil⟩
namespace Any
/-- `v, ok := x.([]byte)`. -/
def asBytes : Any → Bytes × Bool
  | .bytes b => (b, true)
  | _ => ([], false)
/-- `v, ok := x.(string)`. -/
def asString : Any → String × Bool
  | .string s => (s, true)
  | _ => ("", false)
end Any

/-! ## math/big -/
namespace big

@[inline] def cmp (a b : Int) : Int := if a < b then -1 else if a = b then 0 else 1
@[inline] def sign (a : Int) : Int := if a < 0 then -1 else if a = 0 then 0 else 1
/-- `z.Mod(x, y)`: Euclidean modulus (Go panics for `y = 0`). -/
@[inline] def mod (x y : Int) : Int := x % y
/-- `x.Bit(i)`: two's complement for negative `x`. -/
def bit (s : Int) (i : Int) : Nat :=
  if s ≥ 0 then bitAt s.toNat i.toNat else 1 - bitAt ((-s).toNat - 1) i.toNat
/-- `x.BitLen()`: of the absolute value. -/
def bitLen (s : Int) : Int := (I3.bitLen s.natAbs : Nat)
/-- `z.Rsh(x, n)`: arithmetic shift (floor). -/
@[inline] def rsh (x : Int) (n : Nat) : Int := x >>> n
@[inline] def lsh (x : Int) (n : Nat) : Int := x * (2 ^ n : Nat)
/-- `z.SetBytes(b)`: big-endian, non-negative. -/
@[inline] def setBytes (b : Bytes) : Int := (beToNat b : Nat)
/-- `x.Bytes()`: minimal big-endian encoding of `|x|`. -/
@[inline] def bytes (x : Int) : Bytes := natToBEmin x.natAbs
/-- `x.FillBytes(buf)`: big-endian `|x|` on `len(buf)` bytes (Go panics when it does not fit). -/
@[inline] def fillBytes (x : Int) (buf : Bytes) : Bytes := natToBE buf.length x.natAbs
/-- `x.Bits()` on a 64-bit platform: little-endian 64-bit words of `|x|`, no leading zero word. -/
def bitsAux : Nat → Nat → List Nat
  | 0, _ => []
  | fuel + 1, n => if n = 0 then [] else (n % 18446744073709551616) :: bitsAux fuel (n / 18446744073709551616)
def bits (x : Int) : List Nat := bitsAux (x.natAbs + 1) x.natAbs
/-- `z.SetString(s, 10)`: an optional sign (`+`/`-`) followed by one or more decimal digits, nothing else. -/
def decDigits (cs : List Char) : Option Nat :=
  if cs.isEmpty then none else
  cs.foldl (fun acc c => match acc with
    | none => none
    | some n => if c.isDigit then some (n * 10 + (c.toNat - 48)) else none) (some 0)
def setString (s : String) (base : Int) : Int × Bool :=
  if base ≠ 10 then (0, false) else
  match s.toList with
  | '-' :: cs => match decDigits cs with | some n => (-(n : Int), true) | none => (0, false)
  | '+' :: cs => match decDigits cs with | some n => ((n : Int), true) | none => (0, false)
  | cs => match decDigits cs with | some n => ((n : Int), true) | none => (0, false)
/-- `z.SetString(s, 16)`: an optional sign followed by one or more hexadecimal digits (either case), nothing else. -/
def hexDigitVal (c : Char) : Option Nat :=
  if c.isDigit then some (c.toNat - 48)
  else if 'a'.toNat ≤ c.toNat ∧ c.toNat ≤ 'f'.toNat then some (c.toNat - 87)
  else if 'A'.toNat ≤ c.toNat ∧ c.toNat ≤ 'F'.toNat then some (c.toNat - 55)
  else none
def hexDigits (cs : List Char) : Option Nat :=
  if cs.isEmpty then none else
  cs.foldl (fun acc c => match acc with
    | none => none
    | some n => match hexDigitVal c with
      | some d => some (n * 16 + d)
      | none => none) (some 0)
def setString16 (s : String) : Int × Bool :=
  match s.toList with
  | '-' :: cs => match hexDigits cs with | some n => (-(n : Int), true) | none => (0, false)
  | '+' :: cs => match hexDigits cs with | some n => ((n : Int), true) | none => (0, false)
  | cs => match hexDigits cs with | some n => ((n : Int), true) | none => (0, false)
/-- `x.FillBytes(buf)` does not panic: `|x|` fits into `len(buf)` bytes -/
def fillOk (x : Int) (buf : Bytes) : Bool := decide (x.natAbs < 256 ^ buf.length)
/-- `z.ModInverse(g, n)` for prime `n` (`g` is reduced first; `g ≡ 0` has no inverse: `nil`, `z` unchanged). -/
def modInverse (g n : Int) : Option Int :=
  let r := imod g n.toNat
  if r = 0 then none else some (invMod r n.toNat : Nat)

end big

/-! ## ff / ffg `Element` API at the level of represented values (`m` = the modulus) -/
namespace fe

@[inline] def setBigInt (m : Nat) (v : Int) : Nat := imod v m
@[inline] def setUint64 (m : Nat) (v : Nat) : Nat := v % m
@[inline] def one (m : Nat) : Nat := 1 % m
@[inline] def add (m x y : Nat) : Nat := (x + y) % m
@[inline] def sub (m x y : Nat) : Nat := (x + (m - y)) % m
@[inline] def mul (m x y : Nat) : Nat := x * y % m
@[inline] def square (m x : Nat) : Nat := x * x % m
@[inline] def neg (m x : Nat) : Nat := (m - x) % m
@[inline] def double (m x : Nat) : Nat := (x + x) % m
/-- `z.Inverse(x)` (0 ↦ 0). -/
@[inline] def inverse (m x : Nat) : Nat := invMod x m
/-- `z.Exp(x, e)` for `e ≥ 0`. -/
@[inline] def exp (m x : Nat) (e : Int) : Nat := powMod x e.toNat m
@[inline] def toBigIntRegular (x : Nat) : Int := (x : Int)
/-- the element whose Montgomery representation has the given little-endian 64-bit limbs:
    `limbs · R⁻¹ mod m`, `R = 2^(64·#limbs)`. -/
def ofMont (m : Nat) (limbs : List Nat) : Nat :=
  let v := limbs.foldr (fun x acc => x + 18446744073709551616 * acc) 0
  let r := (2 ^ (64 * limbs.length)) % m
  v % m * invMod r m % m

end fe
end I3.Go
