/-
  I3.Exec.Grain — the parameter generator of the Poseidon reference implementation
  (generate_parameters_grain): 80-bit Grain LFSR in self-shrinking mode, round constants by
  rejection sampling below the modulus, then 2t further words (reduced, not rejected) as the
  Cauchy points x_i, y_j of the MDS matrix  M[i][j] = 1/(x_i + y_j).
  Core-only and written in the "strict accumulator" style so that the kernel can evaluate it.
  Nothing here comes from /repo.
-/
import I3.Exec.Field
namespace I3.Grain

/-- LFSR state: bit i of the Nat is element i of the 80-element register (element 0 is shifted out). -/
@[inline] def tap (s : Nat) : Nat :=
  ((s >>> 62) ^^^ (s >>> 51) ^^^ (s >>> 38) ^^^ (s >>> 23) ^^^ (s >>> 13) ^^^ s) &&& 1

@[inline] def clk (s : Nat) : Nat := (s >>> 1) ||| ((tap s) <<< 79)

def warm : Nat → Nat → Nat
  | 0, s => s
  | n+1, s => match clk s with
    | 0 => warm n 0
    | k+1 => warm n (k+1)

/-- Produce `need` words of `nbits` bits.  `reject = true`: keep only words `< m` (round constants);
    `reject = false`: keep every word reduced mod `m` (Cauchy points).  One iteration consumes a pair
    of clocks (self-shrinking generator: the first bit decides whether the second is emitted).
    Returns the LFSR state afterwards and the words in reverse order. -/
def gen (m nbits : Nat) (reject : Bool) : Nat → Nat → Nat → Nat → Nat → List Nat → Nat × List Nat
  | 0, s, _, _, _, out => (s, out)
  | fuel+1, s, acc, nb, need, out =>
    match need with
    | 0 => (s, out)
    | need'+1 =>
      let b1 := tap s
      match clk s with
      | 0 => (0, out)            -- unreachable: an LFSR never reaches the zero state
      | s1p+1 =>
        let s1 := s1p+1
        let b2 := tap s1
        match clk s1 with
        | 0 => (0, out)
        | s2p+1 =>
          let s2 := s2p+1
          match b1 with
          | 0 => gen m nbits reject fuel s2 acc nb (need'+1) out
          | _+1 =>
            match acc*2 + b2, nb+1 with
            | acc', nb' =>
              if nb' = nbits then
                if reject then
                  if acc' < m then gen m nbits reject fuel s2 0 0 need' (acc' :: out)
                  else gen m nbits reject fuel s2 0 0 (need'+1) out
                else gen m nbits reject fuel s2 0 0 need' (acc' % m :: out)
              else gen m nbits reject fuel s2 acc' nb' (need'+1) out

/-- Initial register: field=1 (2 bits), sbox=0 (4), n (12), t (12), R_F (10), R_P (10), thirty ones;
    each field MSB first; element 0 first. -/
def initState (n t rf rp : Nat) : Nat :=
  let bitsMSB (v w : Nat) : List Nat := (List.range w).map (fun i => (v >>> (w-1-i)) &&& 1)
  let l := bitsMSB 1 2 ++ bitsMSB 0 4 ++ bitsMSB n 12 ++ bitsMSB t 12 ++ bitsMSB rf 10 ++ bitsMSB rp 10
            ++ List.replicate 30 1
  (l.zipIdx.foldl (fun a (b,i) => a ||| (b <<< i)) 0)

structure Params where
  t  : Nat
  rf : Nat
  rp : Nat
  rc : List Nat            -- (rf+rp)*t round constants, round-major
  xs : List Nat            -- Cauchy x_i
  ys : List Nat            -- Cauchy y_j

def fuelFor (words nbits : Nat) : Nat := words * nbits * 64 + 100000

/-- Reference parameters for prime field `m` with `nbits`-bit words. -/
def params (m nbits t rf rp : Nat) : Params :=
  let s0 := warm 160 (initState nbits t rf rp)
  let nrc := (rf + rp) * t
  let (s1, rcRev) := gen m nbits true (fuelFor nrc nbits) s0 0 0 nrc []
  let (_, xyRev) := gen m nbits false (fuelFor (2*t) nbits) s1 0 0 (2*t) []
  let xy := xyRev.reverse
  { t := t, rf := rf, rp := rp, rc := rcRev.reverse, xs := xy.take t, ys := xy.drop t }

/-- Cauchy MDS matrix, row-major: `M[i][j] = (x_i + y_j)⁻¹`. -/
def mds (m : Nat) (p : Params) : List (List Nat) :=
  p.xs.map fun x => p.ys.map fun y => invMod ((x + y) % m) m

/-- circomlib partial-round schedule quoted in C01. -/
def nRoundsP : List Nat := [56, 57, 56, 60, 60, 63, 64, 63, 60, 66, 60, 65, 70, 60, 64, 68]

def bn254Params (t : Nat) : Params := params q 254 t 8 (nRoundsP.getD (t - 2) 0)

end I3.Grain
