/-
  I3.Exec.GoldenRef — the REFERENCE data of property C10 (Goldilocks Poseidon, width 12, x^7,
  4 + 22 + 4 rounds).  Core Lean only.

  * `refM` is written directly from the property text / the Plonky2 definition ("the circulant matrix
    whose first ROW is 17,15,41,16,2,28,13,13,39,18,34,20, plus the diagonal matrix 8,0,…,0"):
        refM[i][j] = circ[(j − i) mod 12] + (if i = j then diag[i] else 0).
    It is the matrix by which a reference round multiplies the state (`Hades.matVec refM s`), i.e.
    out_i = Σ_k circ[k]·s[(i+k) mod 12] + diag[i]·s[i]   (Plonky2 `mds_row_shf`).
    The circulant is NOT symmetric (circ[1] = 15 ≠ 20 = circ[11]).  `refMstored` is the transposed
    matrix, entry (i,j) = circ[(i − j) mod 12] + …; that is the matrix the Go `init` STORES in `M`
    (Go `mix` multiplies by the transpose of the stored matrix).  Nothing here is read from I3.Gen.

  * `recoverK` — canonical recovery of 30·12 = 360 textbook round constants from the optimised
    constant table `C` (length 8·t + rp) of the Go code.  With c_k := C[k·t ..(k+1)·t), M := refM:
        K_0      = c_0
        K_r      = M·c_r                              r = 1,2,3,4
        K_{4+j}  = C[5t + j − 1] · (M·e_0)            j = 1 … rp   (scalar × column 0 of M)
        K_{4+rp+1+i} = M·C[5t + rp + i·t ..)          i = 0,1,2
    Rounds 0..3 and 4+rp+1 .. 7+rp are DETERMINED by the tables (relations R2/R4 of
    I3.Exec.PoseidonCheck); the constants of rounds 4 .. 4+rp are not (a partial-round constant in a
    lane ≥ 1 can be pushed through the linear layer into the next round), so `recoverK` picks the
    representative in which the lane-0 constant added after the S-box of partial round j−1 is pushed
    through the MDS layer into round 4+j.  That this choice satisfies the whole relation system is NOT
    assumed: it is checked by the kernel (`I3.Props.C10.tables_ok`).
  * `refK := recoverK gp 12 22 refM Gen.golden_c` — applied to the table REGENERATED from
    /repo/goldenposeidon/constants.go on every run.
-/
import I3.Exec.Field
import I3.Gen.Consts
namespace I3.GoldenRef

def circ : List Nat := [17, 15, 41, 16, 2, 28, 13, 13, 39, 18, 34, 20]
def diag : List Nat := [8, 0, 0, 0, 0, 0, 0, 0, 0, 0, 0, 0]

/-- circulant with first ROW `circ`, plus `diag`:  entry (i,j) = circ[(j−i) mod 12] + [i=j]·diag[i]. -/
def refM : List (List Nat) :=
  (List.range 12).map fun i => (List.range 12).map fun j =>
    circ.getD ((j + 12 - i) % 12) 0 + (if i = j then diag.getD i 0 else 0)

/-- circulant with first COLUMN `circ`, plus `diag`:  entry (i,j) = circ[(i−j) mod 12] + [i=j]·diag[i]
    (= `refM` transposed; what the Go `init` stores). -/
def refMstored : List (List Nat) :=
  (List.range 12).map fun i => (List.range 12).map fun j =>
    circ.getD ((i + 12 - j) % 12) 0 + (if i = j then diag.getD i 0 else 0)

def dot (m : Nat) (a b : List Nat) : Nat := (List.zipWith (· * ·) a b).foldl (· + ·) 0 % m

def matVec (m : Nat) (A : List (List Nat)) (v : List Nat) : List Nat := A.map fun r => dot m r v

/-- `l[i .. i+n)`. -/
def seg (l : List Nat) (i n : Nat) : List Nat := (l.drop i).take n

/-- column 0 of `A` (= `A·e_0`). -/
def col0 (A : List (List Nat)) : List Nat := A.map fun r => r.headD 0

/-- The canonical textbook round constants (round-major, `(8 + rp)·t` values below `m`) recovered from
    the optimised table `C`; see the file header. -/
def recoverK (m t rp : Nat) (M : List (List Nat)) (C : List Nat) : List Nat :=
  (seg C 0 t).map (· % m)
  ++ ((List.range 4).flatMap fun r => matVec m M (seg C ((r + 1) * t) t))
  ++ ((List.range rp).flatMap fun j => (col0 M).map fun x => C.getD (5 * t + j) 0 * x % m)
  ++ ((List.range 3).flatMap fun i => matVec m M (seg C (5 * t + rp + i * t) t))

/-- the reference round constants of C10. -/
def refK : List Nat := recoverK gp 12 22 refM Gen.golden_c

end I3.GoldenRef
