/-
  I3.Exec.GoExtLimb — package-level values of the LIMB TWINS emitted by the source translator T6
  (`I3.Gen.GoPoseidonLimb`, …: the second translation of a package in which an `ff.Element` is the list of its four
  64-bit Montgomery limbs).  Core-only.

  `poseidon_c_limbs` is the limb-level counterpart of `I3.Go.Ext.poseidon_c` (the tables `c.c, c.s, c.m, c.p` that
  `poseidon.init` builds): every entry is what `init` computes for it,

      ff.NewElement().SetBigInt(b)         -- b the parsed table integer

  i.e. the GENERATED limb-mode `ffl_Element_SetBigInt` (I3.Gen.GoFFLimb, which runs the T2 Montgomery kernel
  `ffl_mul · rSquare`) applied to the GENERATED `ffl_NewElement` and the T1 value.  Nothing is precomputed by hand:
  the limb tables are a function of the regenerated value tables and the regenerated conversion.
  (`I3.Lemmas.GoLimbSim.poseidon_c_limbs_rep`: every entry is the canonical Montgomery representation of the
  corresponding entry of `poseidon_c`.)
-/
import I3.Exec.GoExt
import I3.Gen.GoFFLimb
namespace I3.Go.Ext
open I3

/-- `ff.NewElement().SetBigInt(v)`: the four Montgomery limbs of the residue of `v`. -/
def ffl_ofInt (v : Int) : List Nat := (Gen.Go.ffl_Element_SetBigInt Gen.Go.ffl_NewElement v).1
/-- the same for a table integer (T1 reads the tables as naturals; `init` parses them into `*big.Int`s). -/
def ffl_ofNat (v : Nat) : List Nat := ffl_ofInt (v : Int)

/-- the parsed Poseidon tables as `init` stores them: lists of limb lists. -/
def poseidon_c_limbs : (List (List (List Nat))) × (List (List (List Nat))) × (List (List (List (List Nat)))) ×
    (List (List (List (List Nat)))) :=
  (poseidon_c.1.map (·.map ffl_ofNat), poseidon_c.2.1.map (·.map ffl_ofNat),
   poseidon_c.2.2.1.map (·.map (·.map ffl_ofNat)), poseidon_c.2.2.2.map (·.map (·.map ffl_ofNat)))

end I3.Go.Ext
