/-
  I3.Exec.Field — core-only executable arithmetic used by every model and oracle.
  Nothing here is read from /repo: these are the mathematical constants quoted in the
  property statements.  The Go constants are compared with them by the Gen theorems.
-/
namespace I3

/-- BN254 scalar field modulus. -/
def q : Nat := 21888242871839275222246405745257275088548364400416034343698204186575808495617
/-- BabyJubJub prime subgroup order. -/
def l : Nat := 2736030358979909402780800718157159386076813972158567259200215660948447373041
/-- Goldilocks prime 2^64 - 2^32 + 1. -/
def gp : Nat := 18446744069414584321
/-- BabyJubJub curve constants. -/
def ja : Nat := 168700
def jd : Nat := 168696
def jorder : Nat := 8 * l
def B8x : Nat := 5299619240641551281634865583518297030282874472190772894086521144482721001553
def B8y : Nat := 16950150798460657717958625567821834550301663161624707787222815936182638968203

def W : Nat := 18446744073709551616      -- 2^64

/-- Euclidean residue of an integer modulo a positive natural. -/
def imod (v : Int) (m : Nat) : Nat := (v % (m : Int)).toNat

/-- Square-and-multiply, MSB first over a fuel-free bit recursion (structural on `e`). -/
def powMod (b e m : Nat) : Nat :=
  if h : e = 0 then 1 % m
  else
    let r := powMod b (e / 2) m
    let r2 := (r * r) % m
    if e % 2 = 1 then (r2 * b) % m else r2
decreasing_by omega

/-- Inverse in a prime field by Fermat (0 ↦ 0). -/
def invMod (x m : Nat) : Nat := powMod x (m - 2) m

@[inline] def addMod (x y m : Nat) : Nat := (x + y) % m
@[inline] def subMod (x y m : Nat) : Nat := (x + (m - y % m)) % m
@[inline] def mulMod (x y m : Nat) : Nat := (x * y) % m
@[inline] def negMod (x m : Nat) : Nat := (m - x % m) % m

/-- Number of bits of a natural (0 ↦ 0). -/
def bitLen (n : Nat) : Nat := if n = 0 then 0 else Nat.log2 n + 1

/-- bit `i` of `n` as 0/1. -/
@[inline] def bitAt (n i : Nat) : Nat := (n >>> i) % 2

/-- Euler criterion: 0, 1 or m-1. -/
def eulerMod (x m : Nat) : Nat := powMod x ((m - 1) / 2) m

/-- Reference modular square root for an odd prime `m` (Tonelli–Shanks on naturals).
    Returns `none` for non-residues.  `z` must be a non-residue, `m - 1 = 2^s * t`, `t` odd. -/
def tsLoop (m : Nat) : Nat → Nat → Nat → Nat → Nat → Option Nat
  | 0, _, _, _, _ => none
  | fuel+1, mm, c, t, r =>
    if t % m = 1 % m then some r
    else
      -- least i with t^(2^i) = 1
      let rec findI (i : Nat) (tt : Nat) (k : Nat) : Nat :=
        match k with
        | 0 => i
        | k+1 => if tt = 1 then i else findI (i+1) ((tt*tt) % m) k
      let i := findI 0 t mm
      if i ≥ mm then none else
      let b := powMod c (2 ^ (mm - i - 1)) m
      tsLoop m fuel i ((b*b) % m) ((t*b*b) % m) ((r*b) % m)

def twoAdicity (n : Nat) : Nat → Nat
  | 0 => 0
  | f+1 => if n % 2 = 0 ∧ n ≠ 0 then 1 + twoAdicity (n / 2) f else 0

def findNonResidue (m : Nat) : Nat → Nat → Nat
  | 0, z => z
  | f+1, z => if eulerMod z m = m - 1 then z else findNonResidue m f (z+1)

def sqrtMod (x m : Nat) : Option Nat :=
  let x := x % m
  if x = 0 then some 0
  else if eulerMod x m ≠ 1 then none
  else
    let s := twoAdicity (m - 1) 300
    let t := (m - 1) / 2 ^ s
    let z := findNonResidue m 1000 2
    tsLoop m (s + 2) s (powMod z t m) (powMod x t m) (powMod x ((t + 1) / 2) m)

end I3
