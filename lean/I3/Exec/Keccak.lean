/-
  I3.Exec.Keccak — Keccak-f[1600] and the original (pre-NIST padding) Keccak-256, written from
  the Keccak reference (FIPS 202 §3 with domain byte 0x01).  Core-only.
  Two presentations:
    * `keccak256 msg`           — one-shot reference: pad, split in 136-byte blocks, absorb, squeeze;
    * `Sponge.init/write/sum`   — streaming state machine (buffer + lanes) mirroring the
                                   Write/Sum interface the Go wrapper drives.
  `I3.Props.C20` proves the two agree for every way of splitting the input.
-/
import I3.Exec.Bytes
namespace I3.Keccak

def RC : Array UInt64 := #[
  0x0000000000000001, 0x0000000000008082, 0x800000000000808A, 0x8000000080008000,
  0x000000000000808B, 0x0000000080000001, 0x8000000080008081, 0x8000000000008009,
  0x000000000000008A, 0x0000000000000088, 0x0000000080008009, 0x000000008000000A,
  0x000000008000808B, 0x800000000000008B, 0x8000000000008089, 0x8000000000008003,
  0x8000000000008002, 0x8000000000000080, 0x000000000000800A, 0x800000008000000A,
  0x8000000080008081, 0x8000000000008080, 0x0000000080000001, 0x8000000080008008]

/-- rotation offsets r[x][y], indexed `x + 5*y`. -/
def ROT : Array Nat := #[
   0,  1, 62, 28, 27,
  36, 44,  6, 55, 20,
   3, 10, 43, 25, 39,
  41, 45, 15, 21,  8,
  18,  2, 61, 56, 14]

@[inline] def rotl (x : UInt64) (n : Nat) : UInt64 :=
  if n % 64 = 0 then x else (x <<< (UInt64.ofNat (n % 64))) ||| (x >>> (UInt64.ofNat (64 - n % 64)))

abbrev Lanes := Array UInt64     -- 25 lanes, index x + 5*y

@[inline] def g (a : Lanes) (i : Nat) : UInt64 := a.getD i 0

def round (a : Lanes) (rc : UInt64) : Lanes :=
  -- θ
  let c : Array UInt64 := (Array.range 5).map fun x => g a x ^^^ g a (x+5) ^^^ g a (x+10) ^^^ g a (x+15) ^^^ g a (x+20)
  let d : Array UInt64 := (Array.range 5).map fun x => g c ((x+4) % 5) ^^^ rotl (g c ((x+1) % 5)) 1
  let a1 : Lanes := (Array.range 25).map fun i => g a i ^^^ g d (i % 5)
  -- ρ and π : B[y + 5*((2x+3y)%5)] = rotl(A[x+5y], r[x][y])
  let b : Lanes := (Array.range 25).foldl (fun b i =>
      let x := i % 5; let y := i / 5
      b.setIfInBounds (y + 5 * ((2*x + 3*y) % 5)) (rotl (g a1 i) (ROT.getD i 0))) (Array.replicate 25 0)
  -- χ
  let a2 : Lanes := (Array.range 25).map fun i =>
      let x := i % 5; let y := i / 5
      g b i ^^^ ((~~~ g b ((x+1) % 5 + 5*y)) &&& g b ((x+2) % 5 + 5*y))
  -- ι
  a2.setIfInBounds 0 (g a2 0 ^^^ rc)

def keccakF (a : Lanes) : Lanes := RC.foldl round a

def rate : Nat := 136

/-- little-endian 64-bit word from up to 8 bytes. -/
def leWord (bs : Bytes) : UInt64 :=
  (bs.take 8).foldr (fun b acc => (acc <<< 8) ||| b.toUInt64) 0

def wordLE (w : UInt64) : Bytes :=
  (List.range 8).map fun i => (w >>> (UInt64.ofNat (8*i))).toUInt8

/-- XOR one full 136-byte block into the first 17 lanes and permute. -/
def absorbBlock (a : Lanes) (blk : Bytes) : Lanes :=
  let a' := (List.range 17).foldl (fun a i => a.setIfInBounds i (g a i ^^^ leWord (blk.drop (8*i)))) a
  keccakF a'

def zeroLanes : Lanes := Array.replicate 25 0

/-- pad10*1 with the original Keccak domain byte 0x01; `tail.length < 136`. -/
def padLast (tail : Bytes) : Bytes :=
  let n := tail.length
  if n = rate - 1 then tail ++ [0x81]
  else tail ++ [0x01] ++ List.replicate (rate - 2 - n) 0 ++ [0x80]

def squeeze32 (a : Lanes) : Bytes :=
  wordLE (g a 0) ++ wordLE (g a 1) ++ wordLE (g a 2) ++ wordLE (g a 3)

/-- absorb as many full blocks as `bs` holds; returns lanes and the unabsorbed tail (< 136 bytes). -/
def absorbAll (a : Lanes) (bs : Bytes) : Lanes × Bytes :=
  if h : bs.length ≥ rate then absorbAll (absorbBlock a (bs.take rate)) (bs.drop rate)
  else (a, bs)
termination_by bs.length
decreasing_by simp [rate] at *; omega

/-- One-shot reference Keccak-256. -/
def keccak256 (msg : Bytes) : Bytes :=
  let (a, tail) := absorbAll zeroLanes msg
  squeeze32 (absorbBlock a (padLast tail))

/-- Streaming interface. -/
structure Sponge where
  a   : Lanes
  buf : Bytes          -- invariant: buf.length < 136

namespace Sponge
def init : Sponge := { a := zeroLanes, buf := [] }
def write (s : Sponge) (data : Bytes) : Sponge :=
  let (a, tail) := absorbAll s.a (s.buf ++ data)
  { a := a, buf := tail }
def sum (s : Sponge) : Bytes := squeeze32 (absorbBlock s.a (padLast s.buf))
end Sponge

/-- The Go wrapper `keccak256.Hash(data...)`: write every slice, then Sum. -/
def hashSlices (slices : List Bytes) : Bytes := (slices.foldl Sponge.write Sponge.init).sum

end I3.Keccak
