/-
  I3.Exec.Blake512 — the SHA-3 finalist BLAKE-512 (16 rounds, 128-byte blocks, zero salt), written
  from the BLAKE submission document.  Core-only.
    * `blake512 msg`          — one-shot reference (pad, counters per block, compress);
    * `Stream.init/write/sum` — streaming state machine mirroring the Write/Sum interface
                                (buffer, running counter, the three padding cases of Sum).
-/
import I3.Exec.Bytes
namespace I3.Blake

def IV : Array UInt64 := #[
  0x6A09E667F3BCC908, 0xBB67AE8584CAA73B, 0x3C6EF372FE94F82B, 0xA54FF53A5F1D36F1,
  0x510E527FADE682D1, 0x9B05688C2B3E6C1F, 0x1F83D9ABFB41BD6B, 0x5BE0CD19137E2179]

def CST : Array UInt64 := #[
  0x243F6A8885A308D3, 0x13198A2E03707344, 0xA4093822299F31D0, 0x082EFA98EC4E6C89,
  0x452821E638D01377, 0xBE5466CF34E90C6C, 0xC0AC29B7C97C50DD, 0x3F84D5B5B5470917,
  0x9216D5D98979FB1B, 0xD1310BA698DFB5AC, 0x2FFD72DBD01ADFB7, 0xB8E1AFED6A267E96,
  0xBA7C9045F12C7F99, 0x24A19947B3916CF7, 0x0801F2E2858EFC16, 0x636920D871574E69]

def SIGMA : Array (Array Nat) := #[
  #[ 0,  1,  2,  3,  4,  5,  6,  7,  8,  9, 10, 11, 12, 13, 14, 15],
  #[14, 10,  4,  8,  9, 15, 13,  6,  1, 12,  0,  2, 11,  7,  5,  3],
  #[11,  8, 12,  0,  5,  2, 15, 13, 10, 14,  3,  6,  7,  1,  9,  4],
  #[ 7,  9,  3,  1, 13, 12, 11, 14,  2,  6,  5, 10,  4,  0, 15,  8],
  #[ 9,  0,  5,  7,  2,  4, 10, 15, 14,  1, 11, 12,  6,  8,  3, 13],
  #[ 2, 12,  6, 10,  0, 11,  8,  3,  4, 13,  7,  5, 15, 14,  1,  9],
  #[12,  5,  1, 15, 14, 13,  4, 10,  0,  7,  6,  3,  9,  2,  8, 11],
  #[13, 11,  7, 14, 12,  1,  3,  9,  5,  0, 15,  4,  8,  6,  2, 10],
  #[ 6, 15, 14,  9, 11,  3,  0,  8, 12,  2, 13,  7,  1,  4, 10,  5],
  #[10,  2,  8,  4,  7,  6,  1,  5, 15, 11,  9, 14,  3, 12, 13,  0]]

@[inline] def rotr (x : UInt64) (n : Nat) : UInt64 :=
  (x >>> (UInt64.ofNat n)) ||| (x <<< (UInt64.ofNat (64 - n)))

@[inline] def gt (a : Array UInt64) (i : Nat) : UInt64 := a.getD i 0

/-- the G function on positions a b c d of `v`, round `r`, index `i` (0..7). -/
def G (m : Array UInt64) (r i : Nat) (v : Array UInt64) (ia ib ic id : Nat) : Array UInt64 :=
  let sg := SIGMA.getD (r % 10) #[]
  let s0 := sg.getD (2*i) 0
  let s1 := sg.getD (2*i+1) 0
  let a := gt v ia; let b := gt v ib; let c := gt v ic; let d := gt v id
  let a := a + b + (gt m s0 ^^^ gt CST s1)
  let d := rotr (d ^^^ a) 32
  let c := c + d
  let b := rotr (b ^^^ c) 25
  let a := a + b + (gt m s1 ^^^ gt CST s0)
  let d := rotr (d ^^^ a) 16
  let c := c + d
  let b := rotr (b ^^^ c) 11
  (((v.setIfInBounds ia a).setIfInBounds ib b).setIfInBounds ic c).setIfInBounds id d

def roundB (m : Array UInt64) (v : Array UInt64) (r : Nat) : Array UInt64 :=
  let v := G m r 0 v 0 4  8 12
  let v := G m r 1 v 1 5  9 13
  let v := G m r 2 v 2 6 10 14
  let v := G m r 3 v 3 7 11 15
  let v := G m r 4 v 0 5 10 15
  let v := G m r 5 v 1 6 11 12
  let v := G m r 6 v 2 7  8 13
  let v := G m r 7 v 3 4  9 14
  v

def beWord (bs : Bytes) : UInt64 := (bs.take 8).foldl (fun acc b => (acc <<< 8) ||| b.toUInt64) 0
def wordBE (w : UInt64) : Bytes := (List.range 8).map fun i => (w >>> (UInt64.ofNat (8*(7-i)))).toUInt8

/-- compression of one 128-byte block with counter `t` (low 64 bits; the high word is 0). -/
def compress (h : Array UInt64) (blk : Bytes) (t : UInt64) : Array UInt64 :=
  let m : Array UInt64 := (Array.range 16).map fun i => beWord (blk.drop (8*i))
  let v : Array UInt64 := h ++ #[gt CST 0, gt CST 1, gt CST 2, gt CST 3,
                                 gt CST 4 ^^^ t, gt CST 5 ^^^ t, gt CST 6, gt CST 7]
  let v := (List.range 16).foldl (roundB m) v
  (Array.range 8).map fun i => gt h i ^^^ gt v i ^^^ gt v (i+8)

def blockSize : Nat := 128

/-- BLAKE-512 padding: 1 bit, zeros up to 895 mod 1024, 1 bit, 128-bit big-endian bit length. -/
def pad (msg : Bytes) : Bytes :=
  let L := msg.length
  let r := L % 128
  let lenBytes : Bytes := List.replicate 8 0 ++ wordBE (UInt64.ofNat (8 * L))
  if r = 111 then msg ++ [0x81] ++ lenBytes
  else if r < 111 then msg ++ [0x80] ++ List.replicate (110 - r) 0 ++ [0x01] ++ lenBytes
  else msg ++ [0x80] ++ List.replicate (127 - r) 0 ++ List.replicate 111 0 ++ [0x01] ++ lenBytes

/-- counter for block `i` of the padded message: message bits up to and including this block,
    0 when the block holds no message bits. -/
def counter (L i : Nat) : UInt64 :=
  if 128 * i < L then UInt64.ofNat (8 * min L (128 * (i + 1))) else 0

def blocks (L : Nat) (h : Array UInt64) : Nat → Bytes → Nat → Array UInt64
  | 0, _, _ => h
  | n+1, bs, i => blocks L (compress h (bs.take 128) (counter L i)) n (bs.drop 128) (i+1)

def digestBytes (h : Array UInt64) : Bytes := (List.range 8).flatMap fun i => wordBE (gt h i)

/-- One-shot reference BLAKE-512. -/
def blake512 (msg : Bytes) : Bytes :=
  let p := pad msg
  digestBytes (blocks msg.length IV (p.length / 128) p 0)

end I3.Blake
