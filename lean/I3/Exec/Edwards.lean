/-
  I3.Exec.Edwards — affine twisted-Edwards law of BabyJubJub on canonical naturals, used as the
  Spec oracle for the curve properties (independent of the projective model of the Go code).
-/
import I3.Exec.Field
namespace I3.Ed

abbrev Pt := Nat × Nat

def zero : Pt := (0, 1)
def B8 : Pt := (B8x, B8y)

def onCurve (P : Pt) : Bool :=
  let x2 := (P.1 * P.1) % q
  let y2 := (P.2 * P.2) % q
  (ja * x2 + y2) % q == (1 + jd * x2 % q * y2) % q

/-- affine addition  x3 = (x1 y2 + y1 x2)/(1 + d x1 x2 y1 y2),  y3 = (y1 y2 - a x1 x2)/(1 - d x1 x2 y1 y2). -/
def add (P Q : Pt) : Pt :=
  let x1 := P.1 % q; let y1 := P.2 % q; let x2 := Q.1 % q; let y2 := Q.2 % q
  let t := jd * x1 % q * x2 % q * y1 % q * y2 % q
  let xn := (x1 * y2 + y1 * x2) % q
  let yn := (y1 * y2 + (q - ja * x1 % q * x2 % q)) % q
  (xn * invMod ((1 + t) % q) q % q, yn * invMod ((1 + q - t) % q) q % q)

def neg (P : Pt) : Pt := ((q - P.1 % q) % q, P.2 % q)

/-- k • P by binary recursion on k (spec: repeated addition). -/
def smul (k : Nat) (P : Pt) : Pt :=
  if h : k = 0 then zero
  else
    let h2 := smul (k / 2) P
    let d := add h2 h2
    if k % 2 = 1 then add d P else d
decreasing_by omega

end I3.Ed
