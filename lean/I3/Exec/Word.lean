/-
  I3.Exec.Word — semantics given to Go's 64-bit word primitives by the limb translator (T2).
  Words are naturals `< 2^64`; every primitive reduces explicitly.
-/
namespace I3.Word

def W : Nat := 18446744073709551616      -- 2^64

/-- `bits.Add64(a, b, carry)` = (sum, carryOut). -/
@[inline] def add64 (a b c : Nat) : Nat × Nat := ((a + b + c) % W, (a + b + c) / W)

/-- `bits.Sub64(a, b, borrow)` = (diff, borrowOut).  For words `a b < 2^64` and `c ≤ 1` the borrow-out
    `1 - (a + W - b - c) / W` is 1 exactly when `a < b + c` (lemma `I3.Word.sub64_borrow` in
    I3.Lemmas.Limbs); it is written arithmetically so that `omega` sees through it. -/
@[inline] def sub64 (a b c : Nat) : Nat × Nat := ((a + W + W - b - c) % W, 1 - (a + W - b - c) / W)

/-- `bits.Mul64(a, b)` = (hi, lo). -/
@[inline] def mul64 (a b : Nat) : Nat × Nat := ((a * b) / W, (a * b) % W)

end I3.Word
