/-
  I3.Exec.Word — semantics given to Go's 64-bit word primitives by the limb translator (T2).
  Words are naturals `< 2^64`; every primitive reduces explicitly.
-/
namespace I3.Word

def W : Nat := 18446744073709551616      -- 2^64

/-- `bits.Add64(a, b, carry)` = (sum, carryOut). -/
@[inline] def add64 (a b c : Nat) : Nat × Nat := ((a + b + c) % W, (a + b + c) / W)

/-- `bits.Sub64(a, b, borrow)` = (diff, borrowOut). -/
@[inline] def sub64 (a b c : Nat) : Nat × Nat := ((a + W + W - b - c) % W, if a < b + c then 1 else 0)

/-- `bits.Mul64(a, b)` = (hi, lo). -/
@[inline] def mul64 (a b : Nat) : Nat × Nat := ((a * b) / W, (a * b) % W)

end I3.Word
