/-
  I3.Exec.Word — semantics given to Go's 64-bit word primitives by the limb translator (T2).
  Words are naturals `< 2^64`; every primitive reduces explicitly.
-/
namespace I3.Word

def W : Nat := 18446744073709551616      -- 2^64

/-- `bits.Add64(a, b, carry)` = (sum, carryOut). -/
@[inline] def add64 (a b c : Nat) : Nat × Nat := ((a + b + c) % W, (a + b + c) / W)

/-- `bits.Sub64(a, b, borrow)` = (diff, borrowOut).  For words `a b < 2^64` and `c ≤ 1` the borrow-out
    `1 - (a + W - b - c) / W` is 1 exactly when `a < b + c` (lemma `I3.Word.sub64_borrow` in
    I3.Lemmas.Limbs); it is written arithmetically so that `omega` sees through it. -/
@[inline] def sub64 (a b c : Nat) : Nat × Nat := ((a + W + W - b - c) % W, 1 - (a + W - b - c) / W)

/-- `bits.Mul64(a, b)` = (hi, lo). -/
@[inline] def mul64 (a b : Nat) : Nat × Nat := ((a * b) / W, (a * b) % W)

/-! amd64 instruction semantics used by the assembly translator (T3): value and carry/borrow flag. -/

/-- `ADDQ src, dst`. -/
@[inline] def addq (d s : Nat) : Nat × Nat := ((d + s) % W, (d + s) / W)
/-- `ADCQ src, dst` (also `ADCXQ` on CF and `ADOXQ` on OF): add with the given carry flag. -/
@[inline] def adcq (d s c : Nat) : Nat × Nat := ((d + s + c) % W, (d + s + c) / W)
/-- `SUBQ src, dst`: CF is the borrow. -/
@[inline] def subq (d s : Nat) : Nat × Nat := sub64 d s 0
/-- `SBBQ src, dst`. -/
@[inline] def sbbq (d s c : Nat) : Nat × Nat := sub64 d s c
/-- `CMOVQcc src, dst`. -/
@[inline] def cmov (c : Bool) (s d : Nat) : Nat := if c then s else d

end I3.Word
