/-
  I3.Exec.Bytes — byte strings, endianness, hexadecimal.  Core-only.
-/
namespace I3

abbrev Bytes := List UInt8

/-- little-endian encoding of `n` on exactly `len` bytes (high part dropped). -/
def natToLE : Nat → Nat → Bytes
  | 0, _ => []
  | len+1, n => UInt8.ofNat (n % 256) :: natToLE len (n / 256)

/-- little-endian decoding. -/
def leToNat : Bytes → Nat
  | [] => 0
  | b :: bs => b.toNat + 256 * leToNat bs

/-- big-endian decoding. -/
def beToNat (bs : Bytes) : Nat := bs.foldl (fun acc b => acc * 256 + b.toNat) 0

/-- big-endian encoding on exactly `len` bytes. -/
def natToBE (len n : Nat) : Bytes := (natToLE len n).reverse

/-- minimal big-endian encoding (`big.Int.Bytes`): no leading zero bytes, `0 ↦ []`. -/
def natToBEmin (n : Nat) : Bytes :=
  if h : n = 0 then [] else natToBEmin (n / 256) ++ [UInt8.ofNat (n % 256)]
decreasing_by omega

def hexDigit (n : Nat) : Char :=
  if n < 10 then Char.ofNat (48 + n) else Char.ofNat (87 + n)

/-- value of a hexadecimal digit (both cases), `none` for any other character. -/
def hexVal (c : Char) : Option Nat :=
  let n := c.toNat
  if 48 ≤ n ∧ n ≤ 57 then some (n - 48)
  else if 97 ≤ n ∧ n ≤ 102 then some (n - 87)
  else if 65 ≤ n ∧ n ≤ 70 then some (n - 55)
  else none

/-- `hex.EncodeToString` (lower case, two digits per byte). -/
def hexEncodeChars : Bytes → List Char
  | [] => []
  | b :: bs => hexDigit (b.toNat / 16) :: hexDigit (b.toNat % 16) :: hexEncodeChars bs

def hexEncode (bs : Bytes) : String := String.ofList (hexEncodeChars bs)

inductive HexErr where
  | badChar   -- encoding/hex.InvalidByteError
  | oddLen    -- encoding/hex.ErrLength
  deriving DecidableEq, Repr

/-- `hex.Decode` semantics: pairs are decoded left to right; the first offending character wins;
    a dangling last character is reported as `badChar` if it is not a digit, else `oddLen`.
    Returns the bytes decoded before the error as well (Go writes them into `dst`). -/
def hexDecodeChars : List Char → Bytes × Option HexErr
  | [] => ([], none)
  | [c] => match hexVal c with
    | none => ([], some .badChar)
    | some _ => ([], some .oddLen)
  | c1 :: c2 :: cs =>
    match hexVal c1, hexVal c2 with
    | some a, some b =>
      let (r, e) := hexDecodeChars cs
      (UInt8.ofNat (a * 16 + b) :: r, e)
    | _, _ => ([], some .badChar)

def hexDecodeOk (cs : List Char) : Option Bytes :=
  match hexDecodeChars cs with
  | (r, none) => some r
  | _ => none

end I3
