/-
  I3.Spec.EdwardsLemmas — pure field lemmas behind the twisted Edwards group law.

  * `complete_aux`  : Bernstein–Lange completeness argument (a = r², d a non-square).
  * `closure_cert`, `assoc_x_cert`, `assoc_y_cert` : polynomial identities modulo the curve
    equations.  The cofactors passed to `linear_combination` were computed by multivariate
    polynomial division (sympy `reduced(g, [e1,e2,e3], x1,y1,x2,y2,x3,y3, domain=ZZ[a,d])`,
    `e_i = a*xi^2 + yi^2 - 1 - d*xi^2*yi^2`, `g` = cross-multiplied numerator of lhs − rhs)
    and the Lean text was generated mechanically; Lean re-checks them with `ring1`.
  * `add_frac_x`, `add_frac_y` : adding a point given by fractions `(xn/xd, yn/yd)`.
-/
import Mathlib.Tactic.LinearCombination
import Mathlib.Tactic.FieldSimp
import Mathlib.Tactic.Ring
import Mathlib.Algebra.Field.Basic
import Mathlib.Algebra.Group.Even

namespace I3.Spec.EdLemmas

variable {F : Type*} [Field F]

/-- Bernstein–Lange: on `r² x² + y² = 1 + d x² y²` with `r ≠ 0`, `2 ≠ 0` and `d` a non-square,
`d x1 x2 y1 y2` is never `±1`. -/
theorem complete_aux {r d x1 y1 x2 y2 ε : F} (h2ne : (2 : F) ≠ 0) (hr : r ≠ 0)
    (hd : ¬ IsSquare d)
    (h1 : r*r*x1^2 + y1^2 = 1 + d*x1^2*y1^2) (h2 : r*r*x2^2 + y2^2 = 1 + d*x2^2*y2^2)
    (hε : ε*ε = 1) (h : d*x1*x2*y1*y2 = ε) : False := by
  have hεne : ε ≠ 0 := by
    rintro rfl; simp at hε
  have hx1 : x1 ≠ 0 := by
    rintro rfl; apply hεne; rw [← h]; ring
  have hy1 : y1 ≠ 0 := by
    rintro rfl; apply hεne; rw [← h]; ring
  have hx2 : x2 ≠ 0 := by
    rintro rfl; apply hεne; rw [← h]; ring
  subst h
  -- the two key identities
  have hp : (r*x1 + d*x1*x2*y1*y2*y1)^2 = d * (x1*y1*(r*x2 + y2))^2 := by
    linear_combination h1 + (y1^2 - 1) * hε - d*x1^2*y1^2 * h2
  have hm : (r*x1 - d*x1*x2*y1*y2*y1)^2 = d * (x1*y1*(r*x2 - y2))^2 := by
    linear_combination h1 + (y1^2 - 1) * hε - d*x1^2*y1^2 * h2
  have hxy : x1*y1 ≠ 0 := mul_ne_zero hx1 hy1
  by_cases hs : r*x2 + y2 = 0
  · by_cases ht : r*x2 - y2 = 0
    · have : 2 * (r * x2) = 0 := by linear_combination hs + ht
      exact mul_ne_zero h2ne (mul_ne_zero hr hx2) this
    · apply hd
      have hk : x1*y1*(r*x2 - y2) ≠ 0 := mul_ne_zero hxy ht
      refine ⟨(r*x1 - d*x1*x2*y1*y2*y1) / (x1*y1*(r*x2 - y2)), ?_⟩
      rw [← sq, div_pow, hm, mul_div_assoc, div_self (pow_ne_zero 2 hk), mul_one]
  · apply hd
    have hk : x1*y1*(r*x2 + y2) ≠ 0 := mul_ne_zero hxy hs
    refine ⟨(r*x1 + d*x1*x2*y1*y2*y1) / (x1*y1*(r*x2 + y2)), ?_⟩
    rw [← sq, div_pow, hp, mul_div_assoc, div_self (pow_ne_zero 2 hk), mul_one]

/-- the curve equation for a point given by fractions, from its cross-multiplied form -/
theorem onCurve_frac {a d xn xd yn yd : F} (hxd : xd ≠ 0) (hyd : yd ≠ 0)
    (key : a*xn^2*yd^2 + yn^2*xd^2 = xd^2*yd^2 + d*xn^2*yn^2) :
    a*(xn/xd)^2 + (yn/yd)^2 = 1 + d*(xn/xd)^2*(yn/yd)^2 := by
  field_simp
  linear_combination key

/-- `x`-coordinate of `(xn/xd, yn/yd) + (x3, y3)` as a single fraction. -/
theorem add_frac_x {d xn xd yn yd x3 y3 : F} (hxd : xd ≠ 0) (hyd : yd ≠ 0) :
    ((xn/xd)*y3 + (yn/yd)*x3) / (1 + d*(xn/xd)*x3*(yn/yd)*y3)
      = (xn*yd*y3 + yn*xd*x3) / (xd*yd + d*xn*yn*x3*y3) := by
  have hk : xd*yd ≠ 0 := mul_ne_zero hxd hyd
  have e1 : (xn/xd)*y3 + (yn/yd)*x3 = (xn*yd*y3 + yn*xd*x3) / (xd*yd) := by
    field_simp
  have e2 : 1 + d*(xn/xd)*x3*(yn/yd)*y3 = (xd*yd + d*xn*yn*x3*y3) / (xd*yd) := by
    field_simp
  rw [e1, e2, div_div_div_cancel_right₀ hk]

/-- `y`-coordinate of `(xn/xd, yn/yd) + (x3, y3)` as a single fraction. -/
theorem add_frac_y {a d xn xd yn yd x3 y3 : F} (hxd : xd ≠ 0) (hyd : yd ≠ 0) :
    ((yn/yd)*y3 - a*(xn/xd)*x3) / (1 - d*(xn/xd)*x3*(yn/yd)*y3)
      = (yn*xd*y3 - a*xn*yd*x3) / (xd*yd - d*xn*yn*x3*y3) := by
  have hk : xd*yd ≠ 0 := mul_ne_zero hxd hyd
  have e1 : (yn/yd)*y3 - a*(xn/xd)*x3 = (yn*xd*y3 - a*xn*yd*x3) / (xd*yd) := by
    field_simp
  have e2 : 1 - d*(xn/xd)*x3*(yn/yd)*y3 = (xd*yd - d*xn*yn*x3*y3) / (xd*yd) := by
    field_simp
  rw [e1, e2, div_div_div_cancel_right₀ hk]

/-- the single-fraction denominators factor through the nested ones -/
theorem den_frac_x {d xn xd yn yd x3 y3 : F} (hxd : xd ≠ 0) (hyd : yd ≠ 0) :
    xd*yd + d*xn*yn*x3*y3 = xd*yd*(1 + d*(xn/xd)*x3*(yn/yd)*y3) := by
  field_simp

theorem den_frac_y {d xn xd yn yd x3 y3 : F} (hxd : xd ≠ 0) (hyd : yd ≠ 0) :
    xd*yd - d*xn*yn*x3*y3 = xd*yd*(1 - d*(xn/xd)*x3*(yn/yd)*y3) := by
  field_simp

/-- closure certificate (cross-multiplied curve equation of the sum) -/
theorem closure_cert (a d x1 y1 x2 y2 : F)
    (h1 : a*x1^2 + y1^2 = 1 + d*x1^2*y1^2)
    (h2 : a*x2^2 + y2^2 = 1 + d*x2^2*y2^2)
    : a*(x1*y2 + y1*x2)^2*(1 - d*x1*x2*y1*y2)^2 + (y1*y2 - a*x1*x2)^2*(1 + d*x1*x2*y1*y2)^2
      = (1 + d*x1*x2*y1*y2)^2*(1 - d*x1*x2*y1*y2)^2 + d*(x1*y2 + y1*x2)^2*(y1*y2 - a*x1*x2)^2 := by
  linear_combination (-a^2*d*x1^2*x2^4*y2^2 - 2*a^2*x2^4*y2^2 + a^2*x2^4 + a*d^2*x1^2*x2^4*y2^4 - a*d*x1^2*x2^2*y2^4 - a*d*x2^4*y1^2*y2^2 + 2*a*d*x2^4*y2^4 - 2*a*x2^2*y2^4 + 4*a*x2^2*y2^2 + d^3*x1^2*x2^4*y1^2*y2^4 + d^2*x2^4*y1^2*y2^4 - d^2*x2^4*y2^4 - d*x2^2*y1^2*y2^4 - 2*d*x2^2*y2^2 + y2^4) * h1 + (a^2*d*x1^4*x2^2*y2^2 + 2*a^2*x1^2*x2^2*y2^2 - a^2*x1^2*x2^2 - 2*a*d*x1^2*x2^2*y2^2 - a*x1^2*y2^2 + 2*a*x2^2*y1^2*y2^2 - a*x2^2*y1^2 - 2*a*x2^2*y2^2 + a*x2^2 + d*x2^2*y1^4*y2^2 - 2*d*x2^2*y1^2*y2^2 + d*x2^2*y2^2 - y1^2*y2^2 + y2^2 + 1) * h2

/-- associativity certificate: `(P+Q)+R` and `(Q+R)+P` have the same x-coordinate (cross-multiplied) -/
theorem assoc_x_cert (a d x1 y1 x2 y2 x3 y3 : F)
    (h1 : a*x1^2 + y1^2 = 1 + d*x1^2*y1^2)
    (h2 : a*x2^2 + y2^2 = 1 + d*x2^2*y2^2)
    (h3 : a*x3^2 + y3^2 = 1 + d*x3^2*y3^2)
    : ((x1*y2 + y1*x2)*(1 - d*x1*x2*y1*y2)*y3 + (y1*y2 - a*x1*x2)*(1 + d*x1*x2*y1*y2)*x3)
      * ((1 + d*x2*x3*y2*y3)*(1 - d*x2*x3*y2*y3) + d*(x2*y3 + y2*x3)*(y2*y3 - a*x2*x3)*x1*y1)
      = ((x2*y3 + y2*x3)*(1 - d*x2*x3*y2*y3)*y1 + (y2*y3 - a*x2*x3)*(1 + d*x2*x3*y2*y3)*x1)
      * ((1 + d*x1*x2*y1*y2)*(1 - d*x1*x2*y1*y2) + d*(x1*y2 + y1*x2)*(y1*y2 - a*x1*x2)*x3*y3) := by
  linear_combination (-a^2*d*x1*x2^4*x3^2*y2*y3 - a^2*d*x1*x2^3*x3^3*y2^2 + a*d^2*x1*x2^4*x3^2*y2^3*y3 + a*d*x1*x2^3*x3*y2^2 - a*d*x2^4*x3*y1*y2*y3^2 + a*d*x2^2*x3^3*y1*y2^3 - d^2*x1*x2^3*x3*y2^4*y3^2 + d^2*x2^4*x3*y1*y2^3*y3^2 + d^2*x2^3*x3^2*y1*y2^4*y3 + d*x1*x2^2*y2^3*y3^3 - d*x1*x2^2*y2^3*y3 + d*x1*x2*x3*y2^4*y3^2 + d*x2^3*y1*y2^2*y3^3 - d*x2^3*y1*y2^2*y3 - d*x2^2*x3*y1*y2^3 - d*x2*x3^2*y1*y2^4*y3) * h1 + (-a^3*x1^3*x2*x3^3 + a^2*d*x1^3*x2^2*x3^2*y2*y3 + a^2*d*x1^3*x2*x3^3*y3^2 - a^2*x1^3*x2*x3*y3^2 + a^2*x1^3*x2*x3 + a^2*x1^3*x3^2*y2*y3 + a^2*x1^2*x2*x3^2*y1*y3 + a^2*x1^2*x3^3*y1*y2 - a^2*x1*x2*x3^3*y1^2 + a^2*x1*x2*x3^3 - a*d^2*x1^2*x2^2*x3^3*y1*y2*y3^2 - a*d*x1^3*x2*x3*y2^2*y3^2 - a*d*x1^3*x3^2*y2*y3^3 + a*d*x1^2*x2^2*x3*y1*y2*y3^2 + a*d*x1^2*x2*x3^2*y1*y2^2*y3 - a*d*x1^2*x2*x3^2*y1*y3^3 - a*d*x1^2*x3^3*y1*y2*y3^2 + a*d*x1*x2^2*x3^2*y1^2*y2*y3 - a*d*x1*x2^2*x3^2*y2*y3 + a*d*x1*x2*x3^3*y1^2*y3^2 - a*d*x1*x2*x3^3*y3^2 + a*x1^3*y2*y3^3 - a*x1^3*y2*y3 + a*x1^2*x2*y1*y3^3 - a*x1^2*x2*y1*y3 + a*x1^2*x3*y1*y2*y3^2 - a*x1^2*x3*y1*y2 - a*x1*x2*x3*y1^2*y3^2 + a*x1*x2*x3*y1^2 + a*x1*x2*x3*y3^2 - a*x1*x2*x3 + a*x1*x3^2*y1^2*y2*y3 - a*x1*x3^2*y2*y3 + a*x2*x3^2*y1^3*y3 - a*x2*x3^2*y1*y3 + a*x3^3*y1^3*y2 - a*x3^3*y1*y2 - d^2*x1^2*x2*x3^2*y1*y2^2*y3^3 - d^2*x1*x2^2*x3^2*y1^2*y2*y3^3 + d^2*x1*x2*x3^3*y1^2*y2^2*y3^2 - d*x1*x2*x3*y1^2*y2^2*y3^2 + d*x1*x2*x3*y2^2*y3^2 - d*x1*x3^2*y1^2*y2*y3^3 + d*x1*x3^2*y2*y3^3 + d*x2^2*x3*y1^3*y2*y3^2 - d*x2^2*x3*y1*y2*y3^2 + d*x2*x3^2*y1^3*y2^2*y3 - d*x2*x3^2*y1^3*y3^3 - d*x2*x3^2*y1*y2^2*y3 + d*x2*x3^2*y1*y3^3 - d*x3^3*y1^3*y2*y3^2 + d*x3^3*y1*y2*y3^2 + x1*y1^2*y2*y3^3 - x1*y1^2*y2*y3 - x1*y2*y3^3 + x1*y2*y3 + x2*y1^3*y3^3 - x2*y1^3*y3 - x2*y1*y3^3 + x2*y1*y3 + x3*y1^3*y2*y3^2 - x3*y1^3*y2 - x3*y1*y2*y3^2 + x3*y1*y2) * h2 + (a^3*x1^3*x2^3*x3 - a^2*x1^3*x2^2*y2*y3 + a^2*x1^3*x2*x3*y2^2 - a^2*x1^3*x2*x3 - a^2*x1^2*x2^3*y1*y3 - a^2*x1^2*x2^2*x3*y1*y2 + a^2*x1*x2^3*x3*y1^2 - a^2*x1*x2^3*x3 + a*d*x1^2*x2^2*x3*y1*y2 - a*x1^3*y2^3*y3 + a*x1^3*y2*y3 - a*x1^2*x2*y1*y2^2*y3 + a*x1^2*x2*y1*y3 - a*x1^2*x3*y1*y2^3 + a*x1^2*x3*y1*y2 - a*x1*x2^2*y1^2*y2*y3 + a*x1*x2^2*y2*y3 + a*x1*x2*x3*y1^2*y2^2 - a*x1*x2*x3*y1^2 - a*x1*x2*x3*y2^2 + a*x1*x2*x3 - a*x2^3*y1^3*y3 + a*x2^3*y1*y3 - a*x2^2*x3*y1^3*y2 + a*x2^2*x3*y1*y2 + d*x1^2*x2*y1*y2^2*y3 + d*x1*x2^2*y1^2*y2*y3 - d*x1*x2*x3*y1^2*y2^2 - x1*y1^2*y2^3*y3 + x1*y1^2*y2*y3 + x1*y2^3*y3 - x1*y2*y3 - x2*y1^3*y2^2*y3 + x2*y1^3*y3 + x2*y1*y2^2*y3 - x2*y1*y3 - x3*y1^3*y2^3 + x3*y1^3*y2 + x3*y1*y2^3 - x3*y1*y2) * h3

/-- associativity certificate: `(P+Q)+R` and `(Q+R)+P` have the same y-coordinate (cross-multiplied) -/
theorem assoc_y_cert (a d x1 y1 x2 y2 x3 y3 : F)
    (h1 : a*x1^2 + y1^2 = 1 + d*x1^2*y1^2)
    (h2 : a*x2^2 + y2^2 = 1 + d*x2^2*y2^2)
    (h3 : a*x3^2 + y3^2 = 1 + d*x3^2*y3^2)
    : ((y1*y2 - a*x1*x2)*(1 + d*x1*x2*y1*y2)*y3 - a*(x1*y2 + y1*x2)*(1 - d*x1*x2*y1*y2)*x3)
      * ((1 + d*x2*x3*y2*y3)*(1 - d*x2*x3*y2*y3) - d*(x2*y3 + y2*x3)*(y2*y3 - a*x2*x3)*x1*y1)
      = ((y2*y3 - a*x2*x3)*(1 + d*x2*x3*y2*y3)*y1 - a*(x2*y3 + y2*x3)*(1 - d*x2*x3*y2*y3)*x1)
      * ((1 + d*x1*x2*y1*y2)*(1 - d*x1*x2*y1*y2) - d*(x1*y2 + y1*x2)*(y1*y2 - a*x1*x2)*x3*y3) := by
  linear_combination (a^2*d*x1*x2^4*x3*y2*y3^2 - a^2*d*x1*x2^2*x3^3*y2^3 - a^2*d*x2^4*x3^2*y1*y2*y3 - a^2*d*x2^3*x3^3*y1*y2^2 - a*d^2*x1*x2^4*x3*y2^3*y3^2 - a*d^2*x1*x2^3*x3^2*y2^4*y3 + a*d^2*x2^4*x3^2*y1*y2^3*y3 - a*d*x1*x2^3*y2^2*y3^3 + a*d*x1*x2^3*y2^2*y3 + a*d*x1*x2^2*x3*y2^3 + a*d*x1*x2*x3^2*y2^4*y3 + a*d*x2^3*x3*y1*y2^2 - d^2*x2^3*x3*y1*y2^4*y3^2 + d*x2^2*y1*y2^3*y3^3 - d*x2^2*y1*y2^3*y3 + d*x2*x3*y1*y2^4*y3^2) * h1 + (-a^3*x1^3*x2*x3^2*y3 - a^3*x1^3*x3^3*y2 - a^3*x1^2*x2*x3^3*y1 - a^2*d*x1^3*x2^2*x3*y2*y3^2 - a^2*d*x1^3*x2*x3^2*y2^2*y3 + a^2*d*x1^3*x2*x3^2*y3^3 + a^2*d*x1^3*x3^3*y2*y3^2 + a^2*d*x1^2*x2^2*x3^2*y1*y2*y3 + a^2*d*x1^2*x2*x3^3*y1*y3^2 - a^2*x1^3*x2*y3^3 + a^2*x1^3*x2*y3 - a^2*x1^3*x3*y2*y3^2 + a^2*x1^3*x3*y2 - a^2*x1^2*x2*x3*y1*y3^2 + a^2*x1^2*x2*x3*y1 + a^2*x1^2*x3^2*y1*y2*y3 - a^2*x1*x2*x3^2*y1^2*y3 + a^2*x1*x2*x3^2*y3 - a^2*x1*x3^3*y1^2*y2 + a^2*x1*x3^3*y2 - a^2*x2*x3^3*y1^3 + a^2*x2*x3^3*y1 - a*d^2*x1^2*x2^2*x3^2*y1*y2*y3^3 + a*d^2*x1^2*x2*x3^3*y1*y2^2*y3^2 + a*d^2*x1*x2^2*x3^3*y1^2*y2*y3^2 - a*d*x1^2*x2*x3*y1*y2^2*y3^2 - a*d*x1^2*x3^2*y1*y2*y3^3 - a*d*x1*x2^2*x3*y1^2*y2*y3^2 + a*d*x1*x2^2*x3*y2*y3^2 - a*d*x1*x2*x3^2*y1^2*y2^2*y3 + a*d*x1*x2*x3^2*y1^2*y3^3 + a*d*x1*x2*x3^2*y2^2*y3 - a*d*x1*x2*x3^2*y3^3 + a*d*x1*x3^3*y1^2*y2*y3^2 - a*d*x1*x3^3*y2*y3^2 + a*d*x2^2*x3^2*y1^3*y2*y3 - a*d*x2^2*x3^2*y1*y2*y3 + a*d*x2*x3^3*y1^3*y3^2 - a*d*x2*x3^3*y1*y3^2 + a*x1^2*y1*y2*y3^3 - a*x1^2*y1*y2*y3 - a*x1*x2*y1^2*y3^3 + a*x1*x2*y1^2*y3 + a*x1*x2*y3^3 - a*x1*x2*y3 - a*x1*x3*y1^2*y2*y3^2 + a*x1*x3*y1^2*y2 + a*x1*x3*y2*y3^2 - a*x1*x3*y2 - a*x2*x3*y1^3*y3^2 + a*x2*x3*y1^3 + a*x2*x3*y1*y3^2 - a*x2*x3*y1 + a*x3^2*y1^3*y2*y3 - a*x3^2*y1*y2*y3 + d^2*x1*x2*x3^2*y1^2*y2^2*y3^3 - d*x2*x3*y1^3*y2^2*y3^2 + d*x2*x3*y1*y2^2*y3^2 - d*x3^2*y1^3*y2*y3^3 + d*x3^2*y1*y2*y3^3 + y1^3*y2*y3^3 - y1^3*y2*y3 - y1*y2*y3^3 + y1*y2*y3) * h2 + (a^3*x1^3*x2^3*y3 + a^3*x1^3*x2^2*x3*y2 + a^3*x1^2*x2^3*x3*y1 + a^2*x1^3*x2*y2^2*y3 - a^2*x1^3*x2*y3 + a^2*x1^3*x3*y2^3 - a^2*x1^3*x3*y2 - a^2*x1^2*x2^2*y1*y2*y3 + a^2*x1^2*x2*x3*y1*y2^2 - a^2*x1^2*x2*x3*y1 + a^2*x1*x2^3*y1^2*y3 - a^2*x1*x2^3*y3 + a^2*x1*x2^2*x3*y1^2*y2 - a^2*x1*x2^2*x3*y2 + a^2*x2^3*x3*y1^3 - a^2*x2^3*x3*y1 + a*d*x1^2*x2^2*y1*y2*y3 - a*d*x1^2*x2*x3*y1*y2^2 - a*d*x1*x2^2*x3*y1^2*y2 - a*x1^2*y1*y2^3*y3 + a*x1^2*y1*y2*y3 + a*x1*x2*y1^2*y2^2*y3 - a*x1*x2*y1^2*y3 - a*x1*x2*y2^2*y3 + a*x1*x2*y3 + a*x1*x3*y1^2*y2^3 - a*x1*x3*y1^2*y2 - a*x1*x3*y2^3 + a*x1*x3*y2 - a*x2^2*y1^3*y2*y3 + a*x2^2*y1*y2*y3 + a*x2*x3*y1^3*y2^2 - a*x2*x3*y1^3 - a*x2*x3*y1*y2^2 + a*x2*x3*y1 - d*x1*x2*y1^2*y2^2*y3 - y1^3*y2^3*y3 + y1^3*y2*y3 + y1*y2^3*y3 - y1*y2*y3) * h3

end I3.Spec.EdLemmas

/-
Certificate generator (python3-vt, sympy), for reproducibility:

  import sympy as sp
  x1,y1,x2,y2,x3,y3,a,d = sp.symbols('x1 y1 x2 y2 x3 y3 a d')
  def L(x1,y1,x2,y2,x3,y3):            # (P+Q)+R as single fractions NX/DX, NY/DY
      xn = x1*y2+y1*x2; xd = 1 + d*x1*x2*y1*y2
      yn = y1*y2-a*x1*x2; yd = 1 - d*x1*x2*y1*y2
      return (xn*yd*y3 + yn*xd*x3, xd*yd + d*xn*yn*x3*y3,
              yn*xd*y3 - a*xn*yd*x3, xd*yd - d*xn*yn*x3*y3)
  A = L(x1,y1,x2,y2,x3,y3); B = L(x2,y2,x3,y3,x1,y1)
  e = [a*v**2 + w**2 - 1 - d*v**2*w**2 for (v,w) in ((x1,y1),(x2,y2),(x3,y3))]
  for (n1,d1,n2,d2) in ((A[0],A[1],B[0],B[1]), (A[2],A[3],B[2],B[3])):
      Qs, r = sp.reduced(sp.expand(n1*d2 - n2*d1), e, x1,y1,x2,y2,x3,y3, domain=sp.ZZ[a,d])
      assert r == 0      # cofactors Qs -> `linear_combination Qs[0]*h1 + Qs[1]*h2 + Qs[2]*h3`
  # closure: g = a*xn^2*yd^2 + yn^2*xd^2 - xd^2*yd^2 - d*xn^2*yn^2, reduced by e[:2]
-/
