/-
  I3.Spec.Edwards — the group law of a complete twisted Edwards curve
      a x² + y² = 1 + d x² y²      (a a nonzero square, d a non-square, 2 ≠ 0)
  over an arbitrary field, and the bridge to the projective addition formulas
  add-2008-bbjlp (Explicit-Formulas Database) used by the code under verification.

  Mathlib has no (twisted) Edwards curves; everything is built from scratch.
  The polynomial certificates live in `I3.Spec.EdwardsLemmas`.
-/
import I3.Spec.EdwardsLemmas

namespace I3.Spec

/-- complete twisted Edwards curve  a x² + y² = 1 + d x² y²  :
a is a nonzero square, d is not a square, 2 ≠ 0 -/
structure EdCurve (F : Type*) [Field F] where
  a : F
  d : F
  two_ne : (2 : F) ≠ 0
  a_ne : a ≠ 0
  a_sq : IsSquare a
  d_nsq : ¬ IsSquare d

namespace EdCurve

variable {F : Type*} [Field F] (C : EdCurve F)

/-- the affine curve equation -/
def OnCurve (x y : F) : Prop := C.a * x^2 + y^2 = 1 + C.d * x^2 * y^2

theorem onCurve_iff (x y : F) : C.OnCurve x y ↔ C.a * x^2 + y^2 = 1 + C.d * x^2 * y^2 := Iff.rfl

/-- `d x1 x2 y1 y2 ∉ {1, -1}` for points on the curve. -/
theorem dxy_ne {x1 y1 x2 y2 ε : F} (h1 : C.OnCurve x1 y1) (h2 : C.OnCurve x2 y2)
    (hε : ε * ε = 1) : C.d*x1*x2*y1*y2 ≠ ε := by
  intro h
  obtain ⟨r, hr⟩ := C.a_sq
  have hr0 : r ≠ 0 := by
    rintro rfl; exact C.a_ne (by simpa using hr)
  unfold OnCurve at h1 h2
  rw [hr] at h1 h2
  exact EdLemmas.complete_aux C.two_ne hr0 C.d_nsq h1 h2 hε h

/-- completeness: both denominators of the addition law are nonzero for points on the curve -/
theorem den_pos_ne_zero {x1 y1 x2 y2 : F} (h1 : C.OnCurve x1 y1) (h2 : C.OnCurve x2 y2) :
    1 + C.d*x1*x2*y1*y2 ≠ 0 := by
  intro h0
  exact C.dxy_ne h1 h2 (ε := -1) (by ring) (by linear_combination h0)

theorem den_neg_ne_zero {x1 y1 x2 y2 : F} (h1 : C.OnCurve x1 y1) (h2 : C.OnCurve x2 y2) :
    1 - C.d*x1*x2*y1*y2 ≠ 0 := by
  intro h0
  exact C.dxy_ne h1 h2 (ε := 1) (by ring) (by linear_combination -h0)

/-- closure: the sum given by the addition law is again on the curve -/
theorem onCurve_add {x1 y1 x2 y2 : F} (h1 : C.OnCurve x1 y1) (h2 : C.OnCurve x2 y2) :
    C.OnCurve ((x1*y2 + y1*x2) / (1 + C.d*x1*x2*y1*y2))
      ((y1*y2 - C.a*x1*x2) / (1 - C.d*x1*x2*y1*y2)) := by
  have hp := C.den_pos_ne_zero h1 h2
  have hm := C.den_neg_ne_zero h1 h2
  exact EdLemmas.onCurve_frac hp hm (EdLemmas.closure_cert C.a C.d x1 y1 x2 y2 h1 h2)

theorem onCurve_zero : C.OnCurve 0 1 := by
  unfold OnCurve; ring

theorem onCurve_neg {x y : F} (h : C.OnCurve x y) : C.OnCurve (-x) y := by
  unfold OnCurve at *; linear_combination h

/-- affine points of the curve -/
@[ext] structure Point where
  x : F
  y : F
  on : C.OnCurve x y

namespace Point

variable {C}

/-- alternative constructor (same as the structure constructor, explicit arguments) -/
def mk' (x y : F) (h : C.OnCurve x y) : C.Point := ⟨x, y, h⟩

@[simp] theorem mk'_x (x y : F) (h : C.OnCurve x y) : (mk' x y h).x = x := rfl
@[simp] theorem mk'_y (x y : F) (h : C.OnCurve x y) : (mk' x y h).y = y := rfl

theorem ext_iff' {P Q : C.Point} : P = Q ↔ P.x = Q.x ∧ P.y = Q.y :=
  ⟨fun h => by subst h; exact ⟨rfl, rfl⟩, fun h => Point.ext h.1 h.2⟩

end Point

instance : Zero C.Point := ⟨⟨0, 1, C.onCurve_zero⟩⟩

variable {C}

instance : Neg C.Point := ⟨fun P => ⟨-P.x, P.y, C.onCurve_neg P.on⟩⟩

instance : Add C.Point :=
  ⟨fun P Q => ⟨(P.x*Q.y + P.y*Q.x) / (1 + C.d*P.x*Q.x*P.y*Q.y),
               (P.y*Q.y - C.a*P.x*Q.x) / (1 - C.d*P.x*Q.x*P.y*Q.y),
               C.onCurve_add P.on Q.on⟩⟩

@[simp] theorem zero_x : (0 : C.Point).x = 0 := rfl
@[simp] theorem zero_y : (0 : C.Point).y = 1 := rfl
@[simp] theorem neg_x (P : C.Point) : (-P).x = -P.x := rfl
@[simp] theorem neg_y (P : C.Point) : (-P).y = P.y := rfl

theorem add_x (P Q : C.Point) :
    (P + Q).x = (P.x*Q.y + P.y*Q.x) / (1 + C.d*P.x*Q.x*P.y*Q.y) := rfl

theorem add_y (P Q : C.Point) :
    (P + Q).y = (P.y*Q.y - C.a*P.x*Q.x) / (1 - C.d*P.x*Q.x*P.y*Q.y) := rfl

theorem den_pos_ne_zero' (P Q : C.Point) : 1 + C.d*P.x*Q.x*P.y*Q.y ≠ 0 :=
  C.den_pos_ne_zero P.on Q.on

theorem den_neg_ne_zero' (P Q : C.Point) : 1 - C.d*P.x*Q.x*P.y*Q.y ≠ 0 :=
  C.den_neg_ne_zero P.on Q.on

protected theorem add_comm (P Q : C.Point) : P + Q = Q + P := by
  ext
  · rw [add_x, add_x]; congr 1 <;> ring
  · rw [add_y, add_y]; congr 1 <;> ring

protected theorem zero_add (P : C.Point) : 0 + P = P := by
  ext
  · rw [add_x]; simp
  · rw [add_y]; simp

protected theorem add_zero (P : C.Point) : P + 0 = P := by
  rw [EdCurve.add_comm, EdCurve.zero_add]

protected theorem neg_add_cancel (P : C.Point) : -P + P = 0 := by
  have hp := den_pos_ne_zero' (-P) P
  have hm := den_neg_ne_zero' (-P) P
  have h := P.on
  unfold OnCurve at h
  ext
  · rw [add_x, zero_x, div_eq_zero_iff]; left
    simp only [neg_x, neg_y]; ring
  · rw [add_y, zero_y, div_eq_one_iff_eq hm]
    simp only [neg_x, neg_y]; linear_combination h

/-- `(P+Q)+R = (Q+R)+P`; associativity follows by commutativity. -/
theorem add_rotate' (P Q R : C.Point) : P + Q + R = Q + R + P := by
  have hPQp := den_pos_ne_zero' P Q
  have hPQm := den_neg_ne_zero' P Q
  have hQRp := den_pos_ne_zero' Q R
  have hQRm := den_neg_ne_zero' Q R
  have hLp := den_pos_ne_zero' (P + Q) R
  have hLm := den_neg_ne_zero' (P + Q) R
  have hRp := den_pos_ne_zero' (Q + R) P
  have hRm := den_neg_ne_zero' (Q + R) P
  rw [add_x, add_y] at hLp hLm hRp hRm
  have h1 := P.on
  have h2 := Q.on
  have h3 := R.on
  unfold OnCurve at h1 h2 h3
  ext
  · rw [add_x (P + Q) R, add_x (Q + R) P, add_x P Q, add_y P Q, add_x Q R, add_y Q R,
      EdLemmas.add_frac_x hPQp hPQm, EdLemmas.add_frac_x hQRp hQRm, div_eq_div_iff]
    · exact EdLemmas.assoc_x_cert C.a C.d P.x P.y Q.x Q.y R.x R.y h1 h2 h3
    · rw [EdLemmas.den_frac_x hPQp hPQm]
      exact mul_ne_zero (mul_ne_zero hPQp hPQm) hLp
    · rw [EdLemmas.den_frac_x hQRp hQRm]
      exact mul_ne_zero (mul_ne_zero hQRp hQRm) hRp
  · rw [add_y (P + Q) R, add_y (Q + R) P, add_x P Q, add_y P Q, add_x Q R, add_y Q R,
      EdLemmas.add_frac_y hPQp hPQm, EdLemmas.add_frac_y hQRp hQRm, div_eq_div_iff]
    · exact EdLemmas.assoc_y_cert C.a C.d P.x P.y Q.x Q.y R.x R.y h1 h2 h3
    · rw [EdLemmas.den_frac_y hPQp hPQm]
      exact mul_ne_zero (mul_ne_zero hPQp hPQm) hLm
    · rw [EdLemmas.den_frac_y hQRp hQRm]
      exact mul_ne_zero (mul_ne_zero hQRp hQRm) hRm

protected theorem add_assoc (P Q R : C.Point) : P + Q + R = P + (Q + R) := by
  rw [add_rotate' P Q R, EdCurve.add_comm]

instance : AddCommGroup C.Point where
  add_assoc := EdCurve.add_assoc
  zero_add := EdCurve.zero_add
  add_zero := EdCurve.add_zero
  nsmul := nsmulRec
  zsmul := zsmulRec
  neg_add_cancel := EdCurve.neg_add_cancel
  add_comm := EdCurve.add_comm

theorem sub_eq (P Q : C.Point) : P - Q = P + -Q := sub_eq_add_neg P Q

variable (C)

/-- projective addition, formulas add-2008-bbjlp (EFD), on triples `(X, Y, Z)` -/
def addProj (C : EdCurve F) (p q : F × F × F) : F × F × F :=
  let X1 := p.1; let Y1 := p.2.1; let Z1 := p.2.2
  let X2 := q.1; let Y2 := q.2.1; let Z2 := q.2.2
  let A := Z1*Z2
  let B := A^2
  let Cc := X1*X2
  let D := Y1*Y2
  let E := C.d*Cc*D
  let Fv := B - E
  let G := B + E
  (A*Fv*((X1+Y1)*(X2+Y2) - Cc - D), A*G*(D - C.a*Cc), Fv*G)

theorem addProj_eq (X1 Y1 Z1 X2 Y2 Z2 : F) :
    C.addProj (X1, Y1, Z1) (X2, Y2, Z2) =
      (Z1*Z2*((Z1*Z2)^2 - C.d*(X1*X2)*(Y1*Y2))*((X1+Y1)*(X2+Y2) - X1*X2 - Y1*Y2),
       Z1*Z2*((Z1*Z2)^2 + C.d*(X1*X2)*(Y1*Y2))*(Y1*Y2 - C.a*(X1*X2)),
       ((Z1*Z2)^2 - C.d*(X1*X2)*(Y1*Y2))*((Z1*Z2)^2 + C.d*(X1*X2)*(Y1*Y2))) := rfl

/-- `addProj` on projective representatives `(x Z, y Z, Z)` of affine `(x, y)`:
pure field statement, the two affine denominators being nonzero by hypothesis. -/
theorem addProj_affine {x1 y1 x2 y2 Z1 Z2 : F} (hZ1 : Z1 ≠ 0) (hZ2 : Z2 ≠ 0)
    (hp : 1 + C.d*x1*x2*y1*y2 ≠ 0) (hm : 1 - C.d*x1*x2*y1*y2 ≠ 0) :
    (C.addProj (x1*Z1, y1*Z1, Z1) (x2*Z2, y2*Z2, Z2)).2.2 ≠ 0 ∧
    (C.addProj (x1*Z1, y1*Z1, Z1) (x2*Z2, y2*Z2, Z2)).1
        / (C.addProj (x1*Z1, y1*Z1, Z1) (x2*Z2, y2*Z2, Z2)).2.2
      = (x1*y2 + y1*x2) / (1 + C.d*x1*x2*y1*y2) ∧
    (C.addProj (x1*Z1, y1*Z1, Z1) (x2*Z2, y2*Z2, Z2)).2.1
        / (C.addProj (x1*Z1, y1*Z1, Z1) (x2*Z2, y2*Z2, Z2)).2.2
      = (y1*y2 - C.a*x1*x2) / (1 - C.d*x1*x2*y1*y2) := by
  have hB : (Z1*Z2)^2 ≠ 0 := pow_ne_zero 2 (mul_ne_zero hZ1 hZ2)
  have hF : (Z1*Z2)^2 - C.d*(x1*Z1*(x2*Z2))*(y1*Z1*(y2*Z2)) ≠ 0 := by
    have e : (Z1*Z2)^2 - C.d*(x1*Z1*(x2*Z2))*(y1*Z1*(y2*Z2))
        = (Z1*Z2)^2 * (1 - C.d*x1*x2*y1*y2) := by ring
    rw [e]; exact mul_ne_zero hB hm
  have hG : (Z1*Z2)^2 + C.d*(x1*Z1*(x2*Z2))*(y1*Z1*(y2*Z2)) ≠ 0 := by
    have e : (Z1*Z2)^2 + C.d*(x1*Z1*(x2*Z2))*(y1*Z1*(y2*Z2))
        = (Z1*Z2)^2 * (1 + C.d*x1*x2*y1*y2) := by ring
    rw [e]; exact mul_ne_zero hB hp
  rw [addProj_eq]
  refine ⟨mul_ne_zero hF hG, ?_, ?_⟩
  · rw [div_eq_div_iff (mul_ne_zero hF hG) hp]; ring
  · rw [div_eq_div_iff (mul_ne_zero hF hG) hm]; ring

/-- correctness of the projective addition formulas add-2008-bbjlp w.r.t. the affine group law:
for projective representatives `(X1:Y1:Z1)`, `(X2:Y2:Z2)` (`Z1, Z2 ≠ 0`) of curve points `P`, `Q`,
the result `(X3, Y3, Z3) = addProj (X1,Y1,Z1) (X2,Y2,Z2)` has `Z3 ≠ 0` and represents `P + Q`. -/
theorem addProj_correct {X1 Y1 Z1 X2 Y2 Z2 : F} (hZ1 : Z1 ≠ 0) (hZ2 : Z2 ≠ 0)
    (h1 : C.OnCurve (X1/Z1) (Y1/Z1)) (h2 : C.OnCurve (X2/Z2) (Y2/Z2)) :
    (C.addProj (X1, Y1, Z1) (X2, Y2, Z2)).2.2 ≠ 0 ∧
    (C.addProj (X1, Y1, Z1) (X2, Y2, Z2)).1 / (C.addProj (X1, Y1, Z1) (X2, Y2, Z2)).2.2
      = (Point.mk (X1/Z1) (Y1/Z1) h1 + Point.mk (X2/Z2) (Y2/Z2) h2).x ∧
    (C.addProj (X1, Y1, Z1) (X2, Y2, Z2)).2.1 / (C.addProj (X1, Y1, Z1) (X2, Y2, Z2)).2.2
      = (Point.mk (X1/Z1) (Y1/Z1) h1 + Point.mk (X2/Z2) (Y2/Z2) h2).y := by
  have key := C.addProj_affine hZ1 hZ2 (C.den_pos_ne_zero h1 h2) (C.den_neg_ne_zero h1 h2)
  rw [div_mul_cancel₀ X1 hZ1, div_mul_cancel₀ Y1 hZ1, div_mul_cancel₀ X2 hZ2,
    div_mul_cancel₀ Y2 hZ2] at key
  exact key

/-- `addProj_correct` stated for points: any projective representatives of `P` and `Q`. -/
theorem addProj_correct' (P Q : C.Point) {X1 Y1 Z1 X2 Y2 Z2 : F} (hZ1 : Z1 ≠ 0) (hZ2 : Z2 ≠ 0)
    (hx1 : X1 / Z1 = P.x) (hy1 : Y1 / Z1 = P.y) (hx2 : X2 / Z2 = Q.x) (hy2 : Y2 / Z2 = Q.y) :
    (C.addProj (X1, Y1, Z1) (X2, Y2, Z2)).2.2 ≠ 0 ∧
    (C.addProj (X1, Y1, Z1) (X2, Y2, Z2)).1 / (C.addProj (X1, Y1, Z1) (X2, Y2, Z2)).2.2
      = (P + Q).x ∧
    (C.addProj (X1, Y1, Z1) (X2, Y2, Z2)).2.1 / (C.addProj (X1, Y1, Z1) (X2, Y2, Z2)).2.2
      = (P + Q).y := by
  have h1 : C.OnCurve (X1/Z1) (Y1/Z1) := by rw [hx1, hy1]; exact P.on
  have h2 : C.OnCurve (X2/Z2) (Y2/Z2) := by rw [hx2, hy2]; exact Q.on
  have eP : Point.mk (X1/Z1) (Y1/Z1) h1 = P := Point.ext hx1 hy1
  have eQ : Point.mk (X2/Z2) (Y2/Z2) h2 = Q := Point.ext hx2 hy2
  have key := C.addProj_correct hZ1 hZ2 h1 h2
  rwa [eP, eQ] at key

end EdCurve

end I3.Spec
