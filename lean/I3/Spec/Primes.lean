/-
  I3.Spec.Primes — primality of the three moduli quoted in the property statements:
  the BN254 scalar field order `q`, the BabyJubJub prime subgroup order `l` and the
  Goldilocks prime `gp`.

  Method: Pratt certificates, checked by kernel evaluation (`decide +kernel`) of a
  boolean checker `Pratt.check`, whose soundness is proved from Mathlib's `lucas_primality`.
  A certificate is a list of steps `(n, a, [(p₁,k₁), …])` meaning
  `n - 1 = ∏ pᵢ ^ kᵢ`, every `pᵢ` is `2` or the `n` of an earlier step, `a ^ (n-1) ≡ 1 (mod n)`
  and `a ^ ((n-1)/pᵢ) ≢ 1 (mod n)` for every `i`.
-/
import I3.Exec.Field
import Mathlib.NumberTheory.LucasPrimality

set_option maxRecDepth 100000

namespace I3
namespace Pratt

/-- Binary modular exponentiation `b ^ e % m`, structurally recursive on a fuel argument
(so that the kernel can evaluate it; any fuel `f` with `e < 2 ^ f` is enough). -/
def pm (m : ℕ) : ℕ → ℕ → ℕ → ℕ
  | 0, _, _ => 1 % m
  | f + 1, b, e =>
    if e = 0 then 1 % m
    else
      let r := pm m f b (e / 2)
      if e % 2 = 1 then r * r % m * b % m else r * r % m

theorem pm_eq (m : ℕ) : ∀ f b e, e < 2 ^ f → pm m f b e = b ^ e % m
  | 0, b, e, h => by
    have h0 : e = 0 := by simpa using h
    subst h0; simp [pm]
  | f + 1, b, e, h => by
    have hlt : e / 2 < 2 ^ f := by rw [pow_succ] at h; omega
    simp only [pm, pm_eq m f b _ hlt]
    split_ifs with h0 h1
    · subst h0; simp
    · have he : e = e / 2 + e / 2 + 1 := by omega
      conv_rhs => rw [he, pow_succ, pow_add]
      simp [Nat.mul_mod]
    · have he : e = e / 2 + e / 2 := by omega
      conv_rhs => rw [he, pow_add]
      simp [Nat.mul_mod]

/-- `pm` with the canonical fuel. -/
theorem pm_self (m b e : ℕ) : pm m e b e = b ^ e % m := pm_eq m e b e Nat.lt_two_pow_self

theorem pm_le (m b e e' : ℕ) (h : e' ≤ e) : pm m e b e' = b ^ e' % m :=
  pm_eq m e b e' (lt_of_le_of_lt h Nat.lt_two_pow_self)

/-- One certificate step: `(n, a, factorisation of n - 1)`. -/
abbrev Step := ℕ × ℕ × List (ℕ × ℕ)

def prodPow : List (ℕ × ℕ) → ℕ
  | [] => 1
  | r :: t => r.1 ^ r.2 * prodPow t

theorem mem_of_prime_dvd_prodPow {r : ℕ} (hr : r.Prime) :
    ∀ fs : List (ℕ × ℕ), (∀ x ∈ fs, x.1.Prime) → r ∣ prodPow fs → ∃ x ∈ fs, x.1 = r
  | [], _, h => by
    exact absurd (Nat.dvd_one.1 h) hr.ne_one
  | x :: t, hfs, h => by
    rcases (Nat.Prime.dvd_mul hr).1 h with h | h
    · have hx : x.1.Prime := hfs x (by simp)
      have := (Nat.prime_dvd_prime_iff_eq hr hx).1 (hr.dvd_of_dvd_pow h)
      exact ⟨x, by simp, this.symm⟩
    · obtain ⟨y, hy, hyr⟩ := mem_of_prime_dvd_prodPow hr t (fun y hy => hfs y (by simp [hy])) h
      exact ⟨y, by simp [hy], hyr⟩

/-- Boolean check of one step against the list of numbers already known to be prime. -/
def stepOk (known : List ℕ) (s : Step) : Bool :=
  decide (1 < s.1) && (prodPow s.2.2 == s.1 - 1) &&
  s.2.2.all (fun r => known.contains r.1) &&
  (pm s.1 (s.1 - 1) s.2.1 (s.1 - 1) == 1) &&
  s.2.2.all (fun r => pm s.1 (s.1 - 1) s.2.1 ((s.1 - 1) / r.1) != 1)

theorem prime_of_stepOk (known : List ℕ) (hk : ∀ p ∈ known, p.Prime) (s : Step)
    (h : stepOk known s = true) : s.1.Prime := by
  obtain ⟨n, a, fs⟩ := s
  simp only [stepOk, Bool.and_eq_true, decide_eq_true_eq, beq_iff_eq, List.all_eq_true,
    List.contains_iff_mem, bne_iff_ne, ne_eq] at h
  obtain ⟨⟨⟨⟨hn, hprod⟩, hmem⟩, h1⟩, hq⟩ := h
  rw [pm_self] at h1
  have hfs : ∀ x ∈ fs, x.1.Prime := fun x hx => hk _ (hmem x hx)
  have h1n : 1 % n = 1 := Nat.mod_eq_of_lt hn
  refine lucas_primality n (a : ZMod n) ?_ ?_
  · have : ((a ^ (n - 1) : ℕ) : ZMod n) = ((1 : ℕ) : ZMod n) := by
      rw [ZMod.natCast_eq_natCast_iff', h1, h1n]
    simpa using this
  · intro r hr hdvd hpow
    rw [← hprod] at hdvd
    obtain ⟨x, hx, rfl⟩ := mem_of_prime_dvd_prodPow hr fs hfs hdvd
    apply hq x hx
    rw [pm_le _ _ _ _ (Nat.div_le_self _ _)]
    have : ((a ^ ((n - 1) / x.1) : ℕ) : ZMod n) = ((1 : ℕ) : ZMod n) := by
      simpa using hpow
    rw [ZMod.natCast_eq_natCast_iff', h1n] at this
    exact this

/-- Check a whole certificate; each step may use `known` and the earlier steps. -/
def check : List ℕ → List Step → Bool
  | _, [] => true
  | known, s :: t => stepOk known s && check (s.1 :: known) t

theorem check_sound : ∀ (steps : List Step) (known : List ℕ), (∀ p ∈ known, p.Prime) →
    check known steps = true → ∀ n ∈ steps.map (·.1), n.Prime
  | [], _, _, _ => by simp
  | s :: t, known, hk, h => by
    simp only [check, Bool.and_eq_true] at h
    have hs := prime_of_stepOk known hk s h.1
    have ht := check_sound t (s.1 :: known)
      (by intro p hp; rcases List.mem_cons.1 hp with rfl | hp; exacts [hs, hk p hp]) h.2
    intro n hn
    rw [List.map_cons, List.mem_cons] at hn
    rcases hn with rfl | hn
    · exact hs
    · exact ht n hn

theorem prime_of_check (steps : List Step) (n : ℕ) (h : check [2] steps = true)
    (hn : n ∈ steps.map (·.1)) : n.Prime :=
  check_sound steps [2] (by simp [Nat.prime_two]) h n hn

def cert_q : List Step :=
  [
    (3, 2, [(2, 1)]),
    (13, 2, [(2, 2), (3, 1)]),
    (7, 3, [(2, 1), (3, 1)]),
    (29, 2, [(2, 2), (7, 1)]),
    (5, 2, [(2, 2)]),
    (491, 2, [(2, 1), (5, 1), (7, 2)]),
    (983, 5, [(2, 1), (491, 1)]),
    (11, 2, [(2, 1), (5, 1)]),
    (5501, 2, [(2, 2), (5, 3), (11, 1)]),
    (11003, 2, [(2, 1), (5501, 1)]),
    (449, 3, [(2, 6), (7, 1)]),
    (237073, 15, [(2, 4), (3, 1), (11, 1), (449, 1)]),
    (41, 6, [(2, 3), (5, 1)]),
    (3691, 2, [(2, 1), (3, 2), (5, 1), (41, 1)]),
    (17, 3, [(2, 4)]),
    (4999, 3, [(2, 1), (3, 1), (7, 2), (17, 1)]),
    (405928799, 22, [(2, 1), (11, 1), (3691, 1), (4999, 1)]),
    (53, 2, [(2, 2), (13, 1)]),
    (107, 2, [(2, 1), (53, 1)]),
    (661, 2, [(2, 2), (3, 1), (5, 1), (11, 1)]),
    (31, 3, [(2, 1), (3, 1), (5, 1)]),
    (93001, 14, [(2, 3), (3, 1), (5, 3), (31, 1)]),
    (12048837557, 2, [(2, 2), (7, 2), (661, 1), (93001, 1)]),
    (5156902474397, 2, [(2, 2), (107, 1), (12048837557, 1)]),
    (1670836401704629, 2, [(2, 2), (3, 4), (5156902474397, 1)]),
    (137, 3, [(2, 3), (17, 1)]),
    (823, 3, [(2, 1), (3, 1), (137, 1)]),
    (19, 2, [(2, 1), (3, 2)]),
    (23, 5, [(2, 1), (11, 1)]),
    (47, 5, [(2, 1), (23, 1)]),
    (37, 2, [(2, 2), (3, 2)]),
    (223, 3, [(2, 1), (3, 1), (37, 1)]),
    (20963, 2, [(2, 1), (47, 1), (223, 1)]),
    (41927, 5, [(2, 1), (20963, 1)]),
    (1593227, 2, [(2, 1), (19, 1), (41927, 1)]),
    (83, 2, [(2, 1), (41, 1)]),
    (379, 2, [(2, 1), (3, 3), (7, 1)]),
    (409, 21, [(2, 3), (3, 1), (17, 1)]),
    (1637, 2, [(2, 2), (409, 1)]),
    (229, 6, [(2, 2), (3, 1), (19, 1)]),
    (71, 7, [(2, 1), (5, 1), (7, 1)]),
    (853, 2, [(2, 2), (3, 1), (71, 1)]),
    (639533339, 2, [(2, 1), (229, 1), (853, 1), (1637, 1)]),
    (65865678001877903, 5, [(2, 1), (83, 1), (379, 1), (1637, 1), (639533339, 1)]),
    (13818364434197438864469338081, 3, [(2, 5), (5, 1), (823, 1), (1593227, 1), (65865678001877903, 1)]),
    (21888242871839275222246405745257275088548364400416034343698204186575808495617, 5, [(2, 28), (3, 2), (13, 1), (29, 1), (983, 1), (11003, 1), (237073, 1), (405928799, 1), (1670836401704629, 1), (13818364434197438864469338081, 1)])]

def cert_l : List Step :=
  [
    (3, 2, [(2, 1)]),
    (5, 2, [(2, 2)]),
    (11, 2, [(2, 1), (5, 1)]),
    (17, 3, [(2, 4)]),
    (7, 3, [(2, 1), (3, 1)]),
    (23, 5, [(2, 1), (11, 1)]),
    (967, 5, [(2, 1), (3, 1), (7, 1), (23, 1)]),
    (47, 5, [(2, 1), (23, 1)]),
    (2069, 2, [(2, 2), (11, 1), (47, 1)]),
    (4139, 2, [(2, 1), (2069, 1)]),
    (19, 2, [(2, 1), (3, 2)]),
    (29, 2, [(2, 2), (7, 1)]),
    (349, 2, [(2, 2), (3, 1), (29, 1)]),
    (59, 2, [(2, 1), (29, 1)]),
    (61, 2, [(2, 2), (3, 1), (5, 1)]),
    (43189, 2, [(2, 2), (3, 1), (59, 1), (61, 1)]),
    (13, 2, [(2, 2), (3, 1)]),
    (709, 2, [(2, 2), (3, 1), (59, 1)]),
    (2837, 2, [(2, 2), (709, 1)]),
    (295049, 3, [(2, 3), (13, 1), (2837, 1)]),
    (25485742523, 2, [(2, 1), (43189, 1), (295049, 1)]),
    (202795150404015601, 7, [(2, 4), (3, 1), (5, 2), (19, 1), (349, 1), (25485742523, 1)]),
    (431548080059745198929, 3, [(2, 4), (7, 1), (19, 1), (202795150404015601, 1)]),
    (32151195060611136810608359, 3, [(2, 1), (3, 2), (4139, 1), (431548080059745198929, 1)]),
    (109, 6, [(2, 2), (3, 3)]),
    (6323, 2, [(2, 1), (29, 1), (109, 1)]),
    (257, 3, [(2, 8)]),
    (336157, 2, [(2, 2), (3, 1), (109, 1), (257, 1)]),
    (33409, 7, [(2, 7), (3, 2), (29, 1)]),
    (521, 3, [(2, 3), (5, 1), (13, 1)]),
    (97, 5, [(2, 5), (3, 1)]),
    (27743, 5, [(2, 1), (11, 1), (13, 1), (97, 1)]),
    (139, 2, [(2, 1), (3, 1), (23, 1)]),
    (128437, 5, [(2, 2), (3, 1), (7, 1), (11, 1), (139, 1)]),
    (513749, 2, [(2, 2), (128437, 1)]),
    (37, 2, [(2, 2), (3, 2)]),
    (53, 2, [(2, 2), (13, 1)]),
    (1061, 2, [(2, 2), (5, 1), (53, 1)]),
    (10206821, 2, [(2, 2), (5, 1), (13, 1), (37, 1), (1061, 1)]),
    (81654569, 3, [(2, 3), (10206821, 1)]),
    (27892051421815855583579, 2, [(2, 1), (23, 1), (521, 1), (27743, 1), (513749, 1), (81654569, 1)]),
    (1863691091902891838383581623, 5, [(2, 1), (33409, 1), (27892051421815855583579, 1)]),
    (178259130663561045147472537592047227885001, 14, [(2, 3), (3, 2), (5, 4), (6323, 1), (336157, 1), (1863691091902891838383581623, 1)]),
    (2736030358979909402780800718157159386076813972158567259200215660948447373041, 31, [(2, 4), (3, 1), (5, 1), (11, 2), (17, 1), (967, 1), (32151195060611136810608359, 1), (178259130663561045147472537592047227885001, 1)])]

def cert_gp : List Step :=
  [
    (3, 2, [(2, 1)]),
    (5, 2, [(2, 2)]),
    (17, 3, [(2, 4)]),
    (257, 3, [(2, 8)]),
    (65537, 3, [(2, 16)]),
    (18446744069414584321, 7, [(2, 32), (3, 1), (5, 1), (17, 1), (257, 1), (65537, 1)])]

theorem cert_gp_ok : check [2] cert_gp = true := by decide +kernel
theorem cert_l_ok : check [2] cert_l = true := by decide +kernel
theorem cert_q_ok : check [2] cert_q = true := by decide +kernel

end Pratt

/-- The BN254 scalar field modulus is prime. -/
theorem q_prime : Nat.Prime I3.q :=
  Pratt.prime_of_check Pratt.cert_q I3.q Pratt.cert_q_ok (by decide +kernel)

/-- The BabyJubJub subgroup order is prime. -/
theorem l_prime : Nat.Prime I3.l :=
  Pratt.prime_of_check Pratt.cert_l I3.l Pratt.cert_l_ok (by decide +kernel)

/-- The Goldilocks modulus `2^64 - 2^32 + 1` is prime. -/
theorem gp_prime : Nat.Prime I3.gp :=
  Pratt.prime_of_check Pratt.cert_gp I3.gp Pratt.cert_gp_ok (by decide +kernel)

instance : Fact (Nat.Prime I3.q) := ⟨q_prime⟩
instance : Fact (Nat.Prime I3.l) := ⟨l_prime⟩
instance : Fact (Nat.Prime I3.gp) := ⟨gp_prime⟩

end I3
