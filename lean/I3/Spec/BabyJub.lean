/-
  I3.Spec.BabyJub — BabyJubJub as an instance of the generic complete twisted Edwards curve
  of `I3.Spec.Edwards`, and the group-theoretic facts quoted by the properties:

  * `curve : EdCurve (ZMod q)`   a = 168700 (a square: explicit root), d = 168696 (a non-square: Euler);
  * `B8`, `l • B8 = 0`, `addOrderOf B8 = l`;
  * a point `G` of order `8 l`;
  * `Nat.card curve.Point = 8 l` (no point counting: the group injects into `ZMod q × Bool`, so it has
    at most `2 q < 16 l` elements, and `8 l` divides its order by Lagrange), hence
    `(8 l) • P = 0` for every point.

  Closed numeric facts are evaluated by the kernel (`decide +kernel`) on a small executable
  projective double-and-add on naturals (`addN`, `smulLoop`), which is linked to the abstract group
  by the representation relation `Rep`.
-/
import I3.Spec.Edwards
import I3.Spec.Primes
import Mathlib.NumberTheory.LegendreSymbol.Basic
import Mathlib.FieldTheory.Finite.Basic
import Mathlib.GroupTheory.OrderOfElement
import Mathlib.Data.ZMod.QuotientGroup
import Mathlib.Algebra.Group.Subgroup.Finite
import Mathlib.SetTheory.Cardinal.Finite
import Mathlib.Data.ZMod.Basic
import Mathlib.Tactic.Ring
import Mathlib.Tactic.LinearCombination
import Mathlib.Tactic.NormNum
import Mathlib.Tactic.Push

set_option maxRecDepth 100000

namespace I3.Spec.BJJ

open I3 I3.Spec

/-- the base field -/
abbrev F := ZMod I3.q

theorem q_pos : 0 < I3.q := by decide +kernel
theorem one_lt_q : 1 < I3.q := by decide +kernel

instance : NeZero I3.q := ⟨by decide +kernel⟩

/-! ### casts `ℕ → ZMod q` -/

theorem cast_eq_iff (a b : ℕ) : ((a : F) = (b : F)) ↔ a % I3.q = b % I3.q :=
  ZMod.natCast_eq_natCast_iff' a b I3.q

theorem cast_eq_zero_iff (a : ℕ) : ((a : F) = 0) ↔ a % I3.q = 0 := by
  have := cast_eq_iff a 0
  simpa using this

/-- `powMod` is modular exponentiation. -/
theorem powMod_eq (b e m : ℕ) : I3.powMod b e m = b ^ e % m := by
  induction e using Nat.strong_induction_on with
  | _ e ih =>
    rw [I3.powMod]
    split_ifs with h0 h1
    · subst h0; simp
    · rw [ih (e / 2) (by omega)]
      have he : e = e / 2 + e / 2 + 1 := by omega
      conv_rhs => rw [he, pow_succ, pow_add]
      simp [Nat.mul_mod]
    · rw [ih (e / 2) (by omega)]
      have he : e = e / 2 + e / 2 := by omega
      conv_rhs => rw [he, pow_add]
      simp [Nat.mul_mod]

/-- the Fermat inverse `invMod z q = z ^ (q - 2) % q` is the field inverse. -/
theorem cast_invMod (z : ℕ) : ((I3.invMod z I3.q : ℕ) : F) = ((z : ℕ) : F)⁻¹ := by
  unfold I3.invMod
  rw [powMod_eq, ZMod.natCast_mod, Nat.cast_pow]
  by_cases hz : (z : F) = 0
  · rw [hz, inv_zero, zero_pow]
    decide +kernel
  · have h1 : (z : F) ^ (I3.q - 1) = 1 := ZMod.pow_card_sub_one_eq_one hz
    have h2 : I3.q - 1 = (I3.q - 2) + 1 := by
      have := one_lt_q; omega
    rw [h2, pow_succ] at h1
    exact eq_inv_of_mul_eq_one_left h1

/-! ### the curve -/

/-- a square root of `a = 168700` modulo `q` (sympy `sqrt_mod`) -/
def sqrtA : ℕ := 7214280148105020021932206872019688659210616427216992810330019057549499971851

theorem sqrtA_sq : ((168700 : ℕ) : F) = (sqrtA : F) * (sqrtA : F) := by
  rw [← Nat.cast_mul, cast_eq_iff]
  decide +kernel

/-- Euler's criterion for `d`, evaluated in the kernel: `d ^ ((q-1)/2) ≡ -1 (mod q)`. -/
theorem euler_d : Pratt.pm I3.q 254 168696 (I3.q / 2) = I3.q - 1 := by decide +kernel

theorem d_not_square : ¬ IsSquare ((168696 : ℕ) : F) := by
  have hd0 : ((168696 : ℕ) : F) ≠ 0 := by
    rw [Ne, cast_eq_zero_iff]; decide +kernel
  rw [ZMod.euler_criterion I3.q hd0]
  have h := euler_d
  rw [Pratt.pm_eq _ _ _ _ (by decide +kernel)] at h
  intro h1
  have h2 : (((168696 ^ (I3.q / 2) : ℕ) : F)) = ((1 : ℕ) : F) := by
    rw [Nat.cast_pow, h1, Nat.cast_one]
  rw [cast_eq_iff, h] at h2
  revert h2
  decide +kernel

/-- BabyJubJub:  168700 x² + y² = 1 + 168696 x² y²  over the BN254 scalar field. -/
def curve : EdCurve F where
  a := ((168700 : ℕ) : F)
  d := ((168696 : ℕ) : F)
  two_ne := by
    have : (2 : F) = ((2 : ℕ) : F) := by norm_num
    rw [this, Ne, cast_eq_zero_iff]; decide +kernel
  a_ne := by rw [Ne, cast_eq_zero_iff]; decide +kernel
  a_sq := ⟨(sqrtA : F), sqrtA_sq⟩
  d_nsq := d_not_square

@[simp] theorem curve_a : curve.a = ((I3.ja : ℕ) : F) := rfl
@[simp] theorem curve_d : curve.d = ((I3.jd : ℕ) : F) := rfl

/-! ### executable projective arithmetic on naturals -/

/-- projective points with natural-number coordinates -/
abbrev PPt := ℕ × ℕ × ℕ

/-- add-2008-bbjlp on naturals modulo `q` (the same sequence of operations as the Go code). -/
def addN (p1 p2 : PPt) : PPt :=
  let m := I3.q
  let (x1, y1, z1) := p1
  let (x2, y2, z2) := p2
  let a := z1 * z2 % m
  let b := a * a % m
  let c := x1 * x2 % m
  let d := y1 * y2 % m
  let e := (I3.jd % m) * c % m * d % m
  let f := (b + (m - e)) % m
  let g := (b + e) % m
  let x1y1 := (x1 + y1) % m
  let x2y2 := (x2 + y2) % m
  let x3 := x1y1 * x2y2 % m
  let x3 := (x3 + (m - c)) % m
  let x3 := (x3 + (m - d)) % m
  let x3 := x3 * a % m
  let x3 := x3 * f % m
  let ac := (I3.ja % m) * c % m
  let y3 := (d + (m - ac)) % m
  let y3 := y3 * a % m
  let y3 := y3 * g % m
  let z3 := f * g % m
  (x3, y3, z3)

theorem addN_lt (p1 p2 : PPt) :
    (addN p1 p2).1 < I3.q ∧ (addN p1 p2).2.1 < I3.q ∧ (addN p1 p2).2.2 < I3.q := by
  obtain ⟨x1, y1, z1⟩ := p1
  obtain ⟨x2, y2, z2⟩ := p2
  exact ⟨Nat.mod_lt _ q_pos, Nat.mod_lt _ q_pos, Nat.mod_lt _ q_pos⟩

/-- cast of a projective triple into the field -/
def castP (p : PPt) : F × F × F := ((p.1 : F), (p.2.1 : F), (p.2.2 : F))

theorem cast_q_sub_mod (e : ℕ) : (((I3.q - e % I3.q) : ℕ) : F) = - (e : F) := by
  have he : e % I3.q ≤ I3.q := (Nat.mod_lt e q_pos).le
  rw [Nat.cast_sub he, ZMod.natCast_self, ZMod.natCast_mod]
  ring

/-- `addN` is `curve.addProj` under the cast (pure ring-homomorphism reasoning). -/
theorem castP_addN (p1 p2 : PPt) : castP (addN p1 p2) = curve.addProj (castP p1) (castP p2) := by
  obtain ⟨x1, y1, z1⟩ := p1
  obtain ⟨x2, y2, z2⟩ := p2
  simp only [addN, castP, EdCurve.addProj, curve_a, curve_d]
  refine Prod.ext ?_ (Prod.ext ?_ ?_)
  · simp only [ZMod.natCast_mod, Nat.cast_mul, Nat.cast_add, cast_q_sub_mod]
    ring
  · simp only [ZMod.natCast_mod, Nat.cast_mul, Nat.cast_add, cast_q_sub_mod]
    ring
  · simp only [ZMod.natCast_mod, Nat.cast_mul, Nat.cast_add, cast_q_sub_mod]
    ring

/-! ### representation of curve points by projective natural triples -/

/-- `Rep p P`: the natural-number triple `p = (X, Y, Z)` represents the curve point `P`
(`Z ≠ 0`, `X/Z = P.x`, `Y/Z = P.y` in `ZMod q`). -/
def Rep (p : PPt) (P : curve.Point) : Prop :=
  (p.2.2 : F) ≠ 0 ∧ (p.1 : F) / (p.2.2 : F) = P.x ∧ (p.2.1 : F) / (p.2.2 : F) = P.y

theorem Rep.add {p1 p2 : PPt} {P Q : curve.Point} (h1 : Rep p1 P) (h2 : Rep p2 Q) :
    Rep (addN p1 p2) (P + Q) := by
  have key := curve.addProj_correct' P Q h1.1 h2.1 h1.2.1 h1.2.2 h2.2.1 h2.2.2
  have e : curve.addProj ((p1.1 : F), (p1.2.1 : F), (p1.2.2 : F))
      ((p2.1 : F), (p2.2.1 : F), (p2.2.2 : F)) = castP (addN p1 p2) := (castP_addN p1 p2).symm
  rw [e] at key
  exact key

theorem rep_zero : Rep (0, 1, 1) (0 : curve.Point) := by
  refine ⟨?_, ?_, ?_⟩ <;> simp

/-- affine canonical coordinates with `Z = 1` -/
theorem rep_affine (P : curve.Point) : Rep (P.x.val, P.y.val, 1) P := by
  refine ⟨?_, ?_, ?_⟩ <;> simp

theorem rep_of_cast {x y : ℕ} {P : curve.Point} (hx : (x : F) = P.x) (hy : (y : F) = P.y) :
    Rep (x, y, 1) P := by
  refine ⟨?_, ?_, ?_⟩ <;> simp [hx, hy]

/-- two points with a common representative are equal -/
theorem Rep.unique {p : PPt} {P Q : curve.Point} (h1 : Rep p P) (h2 : Rep p Q) : P = Q :=
  EdCurve.Point.ext (h1.2.1.symm.trans h2.2.1) (h1.2.2.symm.trans h2.2.2)

/-- Boolean test "the triple represents the neutral element `(0, 1)`". -/
def isZeroN (p : PPt) : Bool := (p.1 % I3.q == 0) && (p.2.1 % I3.q == p.2.2 % I3.q)

theorem Rep.isZero_iff {p : PPt} {P : curve.Point} (h : Rep p P) : isZeroN p = true ↔ P = 0 := by
  obtain ⟨hz, hx, hy⟩ := h
  simp only [isZeroN, Bool.and_eq_true, beq_iff_eq, ← cast_eq_zero_iff, ← cast_eq_iff]
  rw [EdCurve.Point.ext_iff', ← hx, ← hy, EdCurve.zero_x, EdCurve.zero_y, div_eq_zero_iff,
    div_eq_one_iff_eq hz]
  constructor
  · rintro ⟨h1, h2⟩; exact ⟨Or.inl h1, h2⟩
  · rintro ⟨h1 | h1, h2⟩
    · exact ⟨h1, h2⟩
    · exact absurd h1 hz

/-- force a natural number to a literal before continuing (keeps kernel evaluation strict) -/
@[inline] def seqNat {α : Sort*} (n : ℕ) (k : ℕ → α) : α :=
  match n with
  | 0 => k 0
  | m + 1 => k (m + 1)

theorem seqNat_eq {α : Sort*} (n : ℕ) (k : ℕ → α) : seqNat n k = k n := by
  cases n <;> rfl

/-- force the three components of a triple -/
@[inline] def seqP {α : Sort*} (p : PPt) (k : PPt → α) : α :=
  seqNat p.1 fun x => seqNat p.2.1 fun y => seqNat p.2.2 fun z => k (x, y, z)

theorem seqP_eq {α : Sort*} (p : PPt) (k : PPt → α) : seqP p k = k p := by
  simp [seqP, seqNat_eq]

/-- LSB-first double-and-add with strict accumulators: returns `res + n • e` (fuel `f`, `n < 2^f`). -/
def smulLoop : ℕ → ℕ → PPt → PPt → PPt
  | 0, _, res, _ => res
  | f + 1, n, res, e =>
    if n = 0 then res
    else
      seqP (if n % 2 = 1 then addN res e else res) fun res' =>
        seqP (addN e e) fun e' => smulLoop f (n / 2) res' e'

theorem smulLoop_rep : ∀ (f n : ℕ) (res e : PPt) (R E : curve.Point), n < 2 ^ f →
    Rep res R → Rep e E → Rep (smulLoop f n res e) (R + n • E)
  | 0, n, res, e, R, E, hn, hR, _ => by
    have h0 : n = 0 := by simpa using hn
    subst h0
    simpa [smulLoop] using hR
  | f + 1, n, res, e, R, E, hn, hR, hE => by
    rw [smulLoop]
    by_cases h0 : n = 0
    · subst h0; simpa using hR
    · rw [if_neg h0, seqP_eq, seqP_eq]
      have hlt : n / 2 < 2 ^ f := by rw [pow_succ] at hn; omega
      have hE2 : Rep (addN e e) (2 • E) := by
        rw [two_nsmul]; exact hE.add hE
      by_cases hb : n % 2 = 1
      · rw [if_pos hb]
        have := smulLoop_rep f (n / 2) _ _ _ _ hlt (hR.add hE) hE2
        have e2 : R + E + (n / 2) • (2 • E) = R + n • E := by
          conv_rhs => rw [show n = 1 + (n / 2) * 2 by omega, add_nsmul, one_nsmul, mul_nsmul']
          rw [add_assoc]
        rwa [e2] at this
      · rw [if_neg hb]
        have := smulLoop_rep f (n / 2) _ _ _ _ hlt hR hE2
        have e2 : R + (n / 2) • (2 • E) = R + n • E := by
          conv_rhs => rw [show n = (n / 2) * 2 by omega, mul_nsmul']
        rwa [e2] at this

/-- executable `n • p` on projective natural triples -/
def smulN (n : ℕ) (p : PPt) : PPt := smulLoop 512 n (0, 1, 1) p

theorem smulN_rep {n : ℕ} (hn : n < 2 ^ 512) {p : PPt} {P : curve.Point} (h : Rep p P) :
    Rep (smulN n p) (n • P) := by
  have := smulLoop_rep 512 n (0, 1, 1) p 0 P hn rep_zero h
  rwa [zero_add] at this

/-- on-curve test on naturals -/
def onCurveN (x y : ℕ) : Bool :=
  (I3.ja * (x * x) + y * y) % I3.q == (1 + I3.jd * (x * x) * (y * y)) % I3.q

theorem onCurve_of_onCurveN {x y : ℕ} (h : onCurveN x y = true) :
    curve.OnCurve (x : F) (y : F) := by
  simp only [onCurveN, beq_iff_eq, ← cast_eq_iff] at h
  unfold EdCurve.OnCurve
  rw [curve_a, curve_d]
  push_cast at h
  linear_combination h

/-! ### the base point `B8` -/

/-- the generator of the prime-order subgroup -/
def B8 : curve.Point :=
  ⟨(I3.B8x : F), (I3.B8y : F), onCurve_of_onCurveN (by decide +kernel)⟩

theorem rep_B8 : Rep (I3.B8x, I3.B8y, 1) B8 := rep_of_cast rfl rfl

theorem l_smul_B8 : I3.l • B8 = 0 := by
  have h := smulN_rep (n := I3.l) (by decide +kernel) rep_B8
  exact h.isZero_iff.1 (by decide +kernel)

theorem B8_ne_zero : B8 ≠ 0 := by
  intro h
  have := rep_B8.isZero_iff.2 h
  revert this
  decide +kernel

/-- the base point has prime order `l` -/
theorem addOrderOf_B8 : addOrderOf B8 = I3.l :=
  addOrderOf_eq_prime l_smul_B8 B8_ne_zero

/-! ### a point of order `8 l` -/

def Gx : ℕ := 55855323439656697592146195207386424468439312131670331221298566499901785984
def Gy : ℕ := 9

/-- a generator of the whole curve group (decompression of `y = 9`) -/
def G : curve.Point :=
  ⟨(Gx : F), (Gy : F), onCurve_of_onCurveN (by decide +kernel)⟩

theorem rep_G : Rep (Gx, Gy, 1) G := rep_of_cast rfl rfl

theorem order_smul_G : (8 * I3.l) • G = 0 := by
  have h := smulN_rep (n := 8 * I3.l) (by decide +kernel) rep_G
  exact h.isZero_iff.1 (by decide +kernel)

theorem four_l_smul_G : (4 * I3.l) • G ≠ 0 := by
  have h := smulN_rep (n := 4 * I3.l) (by decide +kernel) rep_G
  intro h0
  have := h.isZero_iff.2 h0
  revert this
  decide +kernel

theorem eight_smul_G : 8 • G ≠ 0 := by
  have h := smulN_rep (n := 8) (by decide +kernel) rep_G
  intro h0
  have := h.isZero_iff.2 h0
  revert this
  decide +kernel

theorem order_G : addOrderOf G = 8 * I3.l := by
  refine addOrderOf_eq_of_nsmul_and_div_prime_nsmul (by decide +kernel) order_smul_G ?_
  intro p hp hdvd
  have h8 : p ∣ 8 ∨ p ∣ I3.l := (Nat.Prime.dvd_mul hp).1 hdvd
  rcases h8 with h8 | hl
  · have h2 : p = 2 := by
      have : p ∣ 2 ^ 3 := by simpa using h8
      exact (Nat.prime_dvd_prime_iff_eq hp Nat.prime_two).1 (hp.dvd_of_dvd_pow this)
    subst h2
    have : 8 * I3.l / 2 = 4 * I3.l := by omega
    rw [this]; exact four_l_smul_G
  · have hpl : p = I3.l := (Nat.prime_dvd_prime_iff_eq hp I3.l_prime).1 hl
    subst hpl
    have : 8 * I3.l / I3.l = 8 := Nat.mul_div_cancel _ I3.l_prime.pos
    rw [this]; exact eight_smul_G

/-! ### the order of the curve group (without point counting) -/

/-- the sign bit used by point compression: `x > (q-1)/2` -/
def sgn (x : F) : Bool := decide ((I3.q - 1) / 2 < x.val)

theorem x_sq_mul (P : curve.Point) : P.x ^ 2 * (curve.a - curve.d * P.y ^ 2) = 1 - P.y ^ 2 := by
  have h := P.on
  unfold EdCurve.OnCurve at h
  linear_combination h

/-- `a - d y² ≠ 0` for every `y`: otherwise `d = (√a / y)²` would be a square. -/
theorem den_ne_zero (y : F) : curve.a - curve.d * y ^ 2 ≠ 0 := by
  intro h
  have hy : y ≠ 0 := by
    rintro rfl
    apply curve.a_ne
    simpa using h
  apply curve.d_nsq
  obtain ⟨r, hr⟩ := curve.a_sq
  refine ⟨r / y, ?_⟩
  rw [div_mul_div_comm, eq_div_iff (mul_ne_zero hy hy)]
  linear_combination hr - h

/-- a curve point is determined by `y` and the sign of `x` -/
def key (P : curve.Point) : F × Bool := (P.y, sgn P.x)

theorem key_injective : Function.Injective key := by
  intro P Q h
  simp only [key, Prod.mk.injEq] at h
  obtain ⟨hy, hs⟩ := h
  have hP := x_sq_mul P
  have hQ := x_sq_mul Q
  rw [hy] at hP
  have hsq : P.x ^ 2 = Q.x ^ 2 := mul_right_cancel₀ (den_ne_zero Q.y) (hP.trans hQ.symm)
  rcases sq_eq_sq_iff_eq_or_eq_neg.1 hsq with hx | hx
  · exact EdCurve.Point.ext hx hy
  · by_cases h0 : Q.x = 0
    · exact EdCurve.Point.ext (by rw [hx, h0, neg_zero]) hy
    · exfalso
      rw [hx] at hs
      unfold sgn at hs
      rw [ZMod.neg_val, if_neg h0, decide_eq_decide] at hs
      have hlt := ZMod.val_lt Q.x
      have hpos : 0 < Q.x.val := (ZMod.val_pos).2 h0
      have hodd : I3.q % 2 = 1 := by decide +kernel
      omega

instance : Finite curve.Point := Finite.of_injective key key_injective

theorem card_le : Nat.card curve.Point ≤ 2 * I3.q := by
  have h := Nat.card_le_card_of_injective key key_injective
  rw [Nat.card_prod, Nat.card_zmod] at h
  simpa [mul_comm] using h

/-- **the order of BabyJubJub** is `8 l` -/
theorem card_points : Nat.card curve.Point = 8 * I3.l := by
  have hdvd : 8 * I3.l ∣ Nat.card curve.Point := by
    rw [← order_G]; exact addOrderOf_dvd_natCard G
  have hle := card_le
  have hpos : 0 < Nat.card curve.Point := Nat.card_pos
  have hnum : 2 * I3.q < 8 * I3.l * 2 := by decide +kernel
  obtain ⟨c, hc⟩ := hdvd
  rcases c with _ | _ | c
  · rw [hc] at hpos; simp at hpos
  · simpa using hc
  · exfalso
    have : 8 * I3.l * 2 ≤ 8 * I3.l * (c + 1 + 1) := Nat.mul_le_mul_left _ (by omega)
    omega

/-- every curve point is killed by `8 l` -/
theorem order_smul (P : curve.Point) : (8 * I3.l) • P = 0 := by
  rw [← card_points]; exact card_nsmul_eq_zero'

theorem addOrderOf_dvd (P : curve.Point) : addOrderOf P ∣ 8 * I3.l :=
  addOrderOf_dvd_of_nsmul_eq_zero (order_smul P)

/-! ### canonical integer coordinates -/

/-- canonical integer coordinates of a curve point (the representation used by the Go `Point`) -/
def coords (P : curve.Point) : ℤ × ℤ := ((P.x.val : ℤ), (P.y.val : ℤ))

theorem coords_injective : Function.Injective coords := by
  intro P Q h
  simp only [coords, Prod.mk.injEq, Nat.cast_inj] at h
  exact EdCurve.Point.ext (ZMod.val_injective _ h.1) (ZMod.val_injective _ h.2)

/-- a curve point from canonical natural coordinates satisfying the curve equation -/
def ofNat (x y : ℕ) (h : onCurveN x y = true) : curve.Point :=
  ⟨(x : F), (y : F), onCurve_of_onCurveN h⟩

theorem onCurveN_of_onCurve {x y : ℕ} (h : curve.OnCurve (x : F) (y : F)) : onCurveN x y = true := by
  simp only [onCurveN, beq_iff_eq, ← cast_eq_iff]
  unfold EdCurve.OnCurve at h
  rw [curve_a, curve_d] at h
  push_cast
  linear_combination h

theorem onCurveN_coords (P : curve.Point) : onCurveN P.x.val P.y.val = true := by
  apply onCurveN_of_onCurve
  rw [ZMod.natCast_zmod_val, ZMod.natCast_zmod_val]
  exact P.on

/-! ### the group is cyclic; the eight points of small order -/

/-- Boolean test "the triple represents the affine point `(x, y)`" (cross-multiplied). -/
def isPtN (p : PPt) (x y : ℕ) : Bool :=
  (p.1 % I3.q == x * p.2.2 % I3.q) && (p.2.1 % I3.q == y * p.2.2 % I3.q)

theorem Rep.eq_of_isPtN {p : PPt} {P : curve.Point} {x y : ℕ} (h : Rep p P)
    (ht : isPtN p x y = true) : P.x = (x : F) ∧ P.y = (y : F) := by
  obtain ⟨hz, hx, hy⟩ := h
  simp only [isPtN, Bool.and_eq_true, beq_iff_eq, ← cast_eq_iff, Nat.cast_mul] at ht
  rw [← hx, ← hy, div_eq_iff hz, div_eq_iff hz]
  exact ht

theorem Rep.coords_of_isPtN {p : PPt} {P : curve.Point} {x y : ℕ} (h : Rep p P)
    (ht : isPtN p x y = true) (hx : x < I3.q) (hy : y < I3.q) :
    coords P = ((x : ℤ), (y : ℤ)) := by
  obtain ⟨h1, h2⟩ := h.eq_of_isPtN ht
  simp only [coords, h1, h2, ZMod.val_natCast, Nat.mod_eq_of_lt hx, Nat.mod_eq_of_lt hy]

theorem zmultiples_G : AddSubgroup.zmultiples G = ⊤ := by
  rw [← AddSubgroup.card_eq_iff_eq_top, Nat.card_zmultiples, order_G, card_points]

/-- BabyJubJub is cyclic, generated by `G` -/
theorem exists_nsmul_G (P : curve.Point) : ∃ m : ℕ, m • G = P := by
  have hfin : IsOfFinAddOrder G := isOfFinAddOrder_of_finite G
  have hP : P ∈ AddSubgroup.zmultiples G := by rw [zmultiples_G]; trivial
  rw [← hfin.mem_multiples_iff_mem_zmultiples] at hP
  exact (AddSubmonoid.mem_multiples_iff _ _).1 hP

def Hx : ℕ := 17545522957889784193459637215142187266023652151580582754000402781682644312291
def Hy : ℕ := 4826523245007015323400664741523384119579596407052839571721035538011798951543

/-- a point of order 8: `H = l • G` -/
def H : curve.Point := ofNat Hx Hy (by decide +kernel)

theorem rep_H : Rep (Hx, Hy, 1) H := rep_of_cast rfl rfl

theorem l_smul_G : I3.l • G = H := by
  have h := smulN_rep (n := I3.l) (by decide +kernel) rep_G
  obtain ⟨h1, h2⟩ := h.eq_of_isPtN (x := Hx) (y := Hy) (by decide +kernel)
  exact EdCurve.Point.ext h1 h2

/-- canonical coordinates of the eight points of order dividing 8, `i ↦ i • H` -/
def smallN : Fin 8 → ℕ × ℕ
  | 0 => (0, 1)
  | 1 => (17545522957889784193459637215142187266023652151580582754000402781682644312291,
          4826523245007015323400664741523384119579596407052839571721035538011798951543)
  | 2 => (2957874849018779266517920829765869116077630550401372566248359756137677864698, 0)
  | 3 => (17545522957889784193459637215142187266023652151580582754000402781682644312291,
          17061719626832259898845741003733890968968767993363194771977168648564009544074)
  | 4 => (0, 21888242871839275222246405745257275088548364400416034343698204186575808495616)
  | 5 => (4342719913949491028786768530115087822524712248835451589697801404893164183326,
          17061719626832259898845741003733890968968767993363194771977168648564009544074)
  | 6 => (18930368022820495955728484915491405972470733850014661777449844430438130630919, 0)
  | 7 => (4342719913949491028786768530115087822524712248835451589697801404893164183326,
          4826523245007015323400664741523384119579596407052839571721035538011798951543)

/-- the eight points of order dividing 8 -/
def small (i : Fin 8) : curve.Point := i.val • H

theorem small_check : ∀ i : Fin 8,
    isPtN (smulN i.val (Hx, Hy, 1)) (smallN i).1 (smallN i).2 = true ∧
      (smallN i).1 < I3.q ∧ (smallN i).2 < I3.q := by decide +kernel

theorem smallN_injective : ∀ i j : Fin 8, smallN i = smallN j → i = j := by decide +kernel

theorem small_coords (i : Fin 8) :
    coords (small i) = (((smallN i).1 : ℤ), ((smallN i).2 : ℤ)) := by
  have h := smulN_rep (n := i.val) (lt_trans i.isLt (by decide +kernel)) rep_H
  obtain ⟨h1, h2, h3⟩ := small_check i
  exact h.coords_of_isPtN h1 h2 h3

theorem eight_smul_H : 8 • H = 0 := by
  rw [← l_smul_G, ← mul_nsmul']; exact order_smul_G

theorem small_add (i j : Fin 8) : small i + small j = small (i + j) := by
  unfold small
  rw [← add_nsmul, Fin.val_add]
  conv_lhs => rw [← Nat.mod_add_div (i.val + j.val) 8, add_nsmul, mul_nsmul, eight_smul_H]
  simp

theorem small_injective : Function.Injective small := by
  intro i j h
  have h2 := congrArg coords h
  rw [small_coords, small_coords] at h2
  simp only [Prod.mk.injEq, Nat.cast_inj] at h2
  exact smallN_injective i j (Prod.ext h2.1 h2.2)

/-- `H` has order exactly 8 -/
theorem addOrderOf_H : addOrderOf H = 8 := by
  have h4 : ¬ (2 ^ 2) • H = 0 := by
    intro h
    have : small 4 = small 0 := by simpa [small] using h
    exact absurd (small_injective this) (by decide)
  have := addOrderOf_eq_prime_pow (p := 2) (n := 2) h4 (by simpa using eight_smul_H)
  simpa using this

/-- the points killed by 8 are exactly the eight points `small i` -/
theorem eight_smul_eq_zero_iff (P : curve.Point) : 8 • P = 0 ↔ ∃ i : Fin 8, P = small i := by
  constructor
  · intro h
    obtain ⟨m, rfl⟩ := exists_nsmul_G P
    rw [← mul_nsmul'] at h
    have hd : 8 * I3.l ∣ 8 * m := by
      rw [← order_G]; exact addOrderOf_dvd_of_nsmul_eq_zero h
    have hl : I3.l ∣ m := (Nat.mul_dvd_mul_iff_left (by norm_num)).1 hd
    obtain ⟨c, rfl⟩ := hl
    refine ⟨⟨c % 8, Nat.mod_lt _ (by norm_num)⟩, ?_⟩
    unfold small
    rw [mul_nsmul, l_smul_G]
    conv_lhs => rw [← Nat.mod_add_div c 8, add_nsmul, mul_nsmul, eight_smul_H]
    simp
  · rintro ⟨i, rfl⟩
    unfold small
    rw [← mul_nsmul', mul_comm, mul_nsmul', eight_smul_H, nsmul_zero]

/-! ### canonical coordinates of concrete points -/

theorem coords_ofNat {x y : ℕ} (h : onCurveN x y = true) (hx : x < I3.q) (hy : y < I3.q) :
    coords (ofNat x y h) = ((x : ℤ), (y : ℤ)) := by
  simp only [coords, ofNat, ZMod.val_natCast, Nat.mod_eq_of_lt hx, Nat.mod_eq_of_lt hy]

theorem coords_zero : coords (0 : curve.Point) = (0, 1) := by
  have h1 : (1 : F).val = 1 := by
    have : ((1 : ℕ) : F).val = 1 % I3.q := ZMod.val_natCast _ _
    rw [Nat.mod_eq_of_lt one_lt_q, Nat.cast_one] at this
    exact this
  simp [coords, h1]

theorem eq_zero_of_coords {P : curve.Point} (h : coords P = (0, 1)) : P = 0 :=
  coords_injective (h.trans coords_zero.symm)

theorem coords_neg (P : curve.Point) :
    coords (-P) = ((((I3.q - P.x.val) % I3.q : ℕ) : ℤ), (P.y.val : ℤ)) := by
  simp only [coords, EdCurve.neg_x, EdCurve.neg_y, ZMod.neg_val']

theorem coords_B8 : coords B8 = ((I3.B8x : ℤ), (I3.B8y : ℤ)) :=
  coords_ofNat (x := I3.B8x) (y := I3.B8y) (by decide +kernel) (by decide +kernel)
    (by decide +kernel)

theorem coords_G : coords G = ((Gx : ℤ), (Gy : ℤ)) :=
  coords_ofNat (x := Gx) (y := Gy) (by decide +kernel) (by decide +kernel) (by decide +kernel)

theorem coords_H : coords H = ((Hx : ℤ), (Hy : ℤ)) :=
  coords_ofNat (x := Hx) (y := Hy) (by decide +kernel) (by decide +kernel) (by decide +kernel)

end I3.Spec.BJJ
