/-
  I3.Spec.Mimc7 — the circomlib MiMC7 definition, written directly from the text of property C08
  and independently of the code shape of the model `I3.Model.Mimc7` (no constant table, no fold
  over a list, no reduction of intermediate sums).  Core Lean only.

    * `digest seed i`  — the Keccak-256 chain over the full 32-byte digest,
                         `digest 0 = Keccak-256(seed)`, `digest (i+1) = Keccak-256(digest i)`;
    * `cst seed i`     — round constant `c_0 = 0`, `c_i = int_BE(digest i) mod q` (the `i`-fold
                         chain started from `Keccak-256(seed)`);
    * `perm seed x k n`— the value `r` after `n ≥ 1` rounds: round 0 has `t = x + k`, round `i ≥ 1`
                         has `t = r + k + c_i`, and every round sets `r = t^7 mod q`;
    * `mimc7 seed x k n = (r + k) mod q`;
    * `multiHash`      — `r ← r + m_i + MiMC7(m_i, r) mod q` starting from the key;
    * `genericFold`    — `r ← MiMC7(r, m_i)` starting from the iv;
    * `chunks`/`hashBytes` — the message cut into 31-byte slices `b[31 i : 31 (i+1)]`
                         (`⌈|b|/31⌉` of them, the last one shorter, none for the empty message), each
                         read as a little-endian integer, fed to `multiHash` with key 0.
-/
import I3.Exec.Field
import I3.Exec.Bytes
import I3.Exec.Keccak
namespace I3.Spec.Mimc7
open I3

/-- The Keccak-256 chain over the 32-byte digest, started from `Keccak-256(seed)`. -/
def digest (seed : Bytes) : Nat → Bytes
  | 0 => Keccak.keccak256 seed
  | i + 1 => Keccak.keccak256 (digest seed i)

/-- Round constants: `c_0 = 0`, `c_i = digest_i mod q` (big-endian). -/
def cst (seed : Bytes) (i : Nat) : Nat :=
  if i = 0 then 0 else beToNat (digest seed i) % q

/-- `perm seed x k n` is `r` after `n` rounds (`n ≥ 1`; the value at `n = 0` is a dummy). -/
def perm (seed : Bytes) (x k : Nat) : Nat → Nat
  | 0 => 0
  | 1 => (x + k) ^ 7 % q
  | n + 2 => (perm seed x k (n + 1) + k + cst seed (n + 1)) ^ 7 % q

/-- Single-block MiMC7 with `n` rounds. -/
def mimc7 (seed : Bytes) (x k n : Nat) : Nat := (perm seed x k n + k) % q

/-- Multi-element hash: `r ← (r + m_i + MiMC7(m_i, r)) mod q`. -/
def multiHash (seed : Bytes) (n : Nat) (arr : List Nat) (key : Nat) : Nat :=
  arr.foldl (fun r m => (r + m + mimc7 seed m r n) % q) key

/-- Generic fold: `r ← MiMC7(r, m_i)`. -/
def genericFold (seed : Bytes) (n : Nat) (arr : List Nat) (iv : Nat) : Nat :=
  arr.foldl (fun r m => mimc7 seed r m n) iv

/-- The message cut into `⌈|b|/31⌉` slices `b[31 i : 31 (i+1)]`. -/
def chunks (b : Bytes) : List Bytes :=
  (List.range ((b.length + 30) / 31)).map fun i => (b.drop (31 * i)).take 31

/-- Byte hashing: the multi-element hash (no key) of the little-endian chunk values. -/
def hashBytes (seed : Bytes) (n : Nat) (b : Bytes) : Nat :=
  multiHash seed n ((chunks b).map leToNat) 0

end I3.Spec.Mimc7
