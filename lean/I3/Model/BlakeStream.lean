/-
  I3.Model.BlakeStream — model of the streaming state machine of the Go package
  github.com/dchest/blake512 v1.0.0 (blake512.go / blake512block.go) for hashSize = 512 and
  zero salt, i.e. exactly what `babyjub.Blake512(m)` drives:  `h := blake512.New(); h.Write(m);
  h.Sum(nil)`.  Core-only, executable.

  Correspondence with the Go source
    digest.h      ↦ `Digest.h`      (chain value; 8 words)
    digest.t      ↦ `Digest.t`      (uint64 bit counter, wrapping arithmetic)
    digest.nullt  ↦ `Digest.nullt`
    digest.x[:nx] ↦ `Digest.x`      (the valid part of the buffer; `nx = x.length`)
    digest.s      = 0               (New() leaves the salt zero: `cst_i ^ s_i = cst_i`, `… ^ s_i` no-op)
  The compression of one block in `block()` is `I3.Blake.compress h blk t'` where `t'` is the
  value xored into v12 and v13: `d.t` (after `d.t += 1024`) unless `d.nullt`, in which case the xor
  is skipped, i.e. `t' = 0`.  (v14, v15 are never touched: the Go counter has 64 bits only.)
-/
import I3.Exec.Blake512
namespace I3.Model.BlakeStream
open I3

structure Digest where
  h     : Array UInt64
  t     : UInt64
  nullt : Bool
  x     : Bytes          -- buffer d.x[:d.nx]
  deriving Repr, DecidableEq

namespace Digest

/-- `blake512.New()` (hashSize 512, h = iv512, everything else zero). -/
def init : Digest := { h := Blake.IV, t := 0, nullt := false, x := [] }

/-- `block(d, p)`: `for len(p) >= BlockSize { d.t += 1024; compress; p = p[BlockSize:] }`. -/
def block (d : Digest) (p : Bytes) : Digest :=
  if _h : p.length ≥ 128 then
    let t := d.t + 1024
    let h := Blake.compress d.h (p.take 128) (if d.nullt then 0 else t)
    block { d with h := h, t := t } (p.drop 128)
  else d
termination_by p.length
decreasing_by simp at *; omega

/-- first part of `Write`: `if d.nx > 0 { … }`; returns the new state and the remaining `p`. -/
def fill (d : Digest) (p : Bytes) : Digest × Bytes :=
  if d.x.length > 0 then
    let n := if p.length > 128 - d.x.length then 128 - d.x.length else p.length
    let d1 : Digest := { d with x := d.x ++ p.take n }            -- d.nx += copy(d.x[d.nx:], p)
    let d2 : Digest := if d1.x.length = 128 then { d1.block d1.x with x := [] } else d1
    (d2, p.drop n)
  else (d, p)

/-- second part of `Write`: `if len(p) >= BlockSize { n := len(p) &^ 127; block(d, p[:n]); p = p[n:] }`. -/
def bulk (d : Digest) (p : Bytes) : Digest × Bytes :=
  if p.length ≥ 128 then
    let n := p.length / 128 * 128                                   -- len(p) &^ (BlockSize-1)
    (d.block (p.take n), p.drop n)
  else (d, p)

/-- third part of `Write`: `if len(p) > 0 { d.nx = copy(d.x[:], p) }`. -/
def keep (d : Digest) (p : Bytes) : Digest :=
  if p.length > 0 then { d with x := p } else d

/-- `(*digest).Write`. -/
def write (d : Digest) (p : Bytes) : Digest :=
  let s1 := d.fill p
  let s2 := s1.1.bulk s1.2
  s2.1.keep s2.2

/-- `pad := [129]byte{0x80}`. -/
def padBuf : Bytes := 0x80 :: List.replicate 128 0

/-- the eight bytes `byte(w>>56), byte(w>>48), …, byte(w)`. -/
def be64 (w : UInt64) : Bytes :=
  [(w >>> 56).toUInt8, (w >>> 48).toUInt8, (w >>> 40).toUInt8, (w >>> 32).toUInt8,
   (w >>> 24).toUInt8, (w >>> 16).toUInt8, (w >>> 8).toUInt8, w.toUInt8]

/-- the padding part of `Sum` (everything between the computation of `len` and `d.t -= 128`). -/
def sumPad (d : Digest) : Digest :=
  let nx : UInt64 := UInt64.ofNat d.x.length
  if nx = 111 then
    -- one padding byte
    let d : Digest := { d with t := d.t - 8 }
    d.write [0x81]
  else
    let d : Digest :=
      if nx < 111 then
        -- enough space to fill the block
        let d : Digest := if nx = 0 then { d with nullt := true } else d
        let d : Digest := { d with t := d.t - (888 - (nx <<< (3 : UInt64))) }
        d.write (padBuf.take ((111 : UInt64) - nx).toNat)                      -- pad[0 : 111-nx]
      else
        -- need 2 compressions
        let d : Digest := { d with t := d.t - (1024 - (nx <<< (3 : UInt64))) }
        let d : Digest := d.write (padBuf.take ((128 : UInt64) - nx).toNat)    -- pad[0 : 128-nx]
        let d : Digest := { d with t := d.t - 888 }
        let d : Digest := d.write ((padBuf.take 112).drop 1)        -- pad[1:112]
        { d with nullt := true }
    let d : Digest := d.write [0x01]
    { d with t := d.t - 8 }

/-- `(*digest).Sum(nil)` for hashSize 512. -/
def sum (d0 : Digest) : Bytes :=
  let nx : UInt64 := UInt64.ofNat d0.x.length
  let l : UInt64 := d0.t + (nx <<< (3 : UInt64))
  let len : Bytes := List.replicate 8 0 ++ be64 l      -- len[0..7] = 0
  let d := d0.sumPad
  let d : Digest := { d with t := d.t - 128 }
  let d := d.write len
  (List.range 8).flatMap fun i => be64 (d.h.getD i 0)

end Digest

/-- `babyjub.Blake512(m)`: `h := blake512.New(); h.Write(m); return h.Sum(nil)`. -/
def blake512Stream (m : Bytes) : Bytes := (Digest.init.write m).sum

/-! ### tests: the streaming model agrees with the one-shot reference (evaluated at build time) -/
section Tests
private def tmsg (n : Nat) : Bytes := (List.range n).map fun i => UInt8.ofNat (7 * i + 3)
private def agree (n : Nat) : Bool := blake512Stream (tmsg n) == Blake.blake512 (tmsg n)
-- test
#guard [0, 1, 55, 110, 111, 112, 113, 127, 128, 129, 239, 240, 255, 256, 257, 383, 384, 1000].all agree
-- test: writing in two pieces gives the same digest
#guard [(0, 5), (1, 127), (100, 28), (100, 29), (111, 1), (128, 128), (130, 300), (5, 0)].all fun (a, b) =>
  ((Digest.init.write (tmsg a)).write ((tmsg (a + b)).drop a)).sum == Blake.blake512 (tmsg (a + b))
end Tests

end I3.Model.BlakeStream
