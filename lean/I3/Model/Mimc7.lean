/-
  I3.Model.Mimc7 — executable model of /repo/mimc7/mimc7.go.
-/
import I3.Exec.Field
import I3.Exec.Bytes
import I3.Exec.Keccak
namespace I3.Model.Mimc7

inductive Err where
  | notInField
  deriving DecidableEq, Repr

/-- `getConstants(seed, nRounds)`: cts[0] = 0, cts[i] = int(keccak^i(keccak(seed))) mod q, the chain
    running over the full 32-byte digest. Returns `nRounds` constants (for `nRounds ≥ 1`). -/
def chain : Nat → Bytes → List Nat
  | 0, _ => []
  | n+1, c =>
    let c' := Keccak.keccak256 c
    (beToNat c' % q) :: chain n c'

def getConstants (seed : Bytes) (nRounds : Nat) : List Nat :=
  0 :: chain (nRounds - 1) (Keccak.keccak256 seed)

def pow7 (t : Nat) : Nat :=
  let t2 := t * t % q
  let t4 := t2 * t2 % q
  (t4 * t2 % q) * t % q

/-- the round loop shared by MIMC7Hash and MIMC7HashGeneric (inputs already reduced mod q). -/
def rounds (x k : Nat) (cts : List Nat) : Nat :=
  match cts with
  | [] => 0     -- nRounds ≤ 0: Go dereferences a nil *Element and panics; the harness never asks for it
  | _ :: rest =>
    let r0 := pow7 ((x + k) % q)
    let r := rest.foldl (fun r c => pow7 (((r + k) % q + c) % q)) r0
    (r + k) % q

/-- `MIMC7HashGeneric(x, k, nRounds)`; `SetBigInt` reduces any integer. -/
def mimc7HashGeneric (seed : Bytes) (x k : Int) (nRounds : Nat) : Nat :=
  rounds (imod x q) (imod k q) (getConstants seed nRounds)

/-- `MIMC7Hash(x, k)` with the package-level table of `nRounds` constants. -/
def mimc7Hash (cts : List Nat) (x k : Int) : Nat := rounds (imod x q) (imod k q) cts

def inField (v : Int) : Bool := decide (0 ≤ v) && decide (v < (q : Int))

/-- `Hash(arr, key)`: r ← (r + m_i + MiMC7(m_i, r)) mod q, starting from the key (0 when nil).
    The key is not range-checked by the Go code, hence an `Int`. -/
def hash (cts : List Nat) (arr : List Int) (key : Option Int) : Except Err Int :=
  if !(arr.all inField) then .error .notInField
  else
    .ok (arr.foldl (fun (r : Int) (m : Int) => ((r + m + (mimc7Hash cts m r : Int)) % (q : Int))) (key.getD 0))

/-- `HashGeneric(iv, arr, nRounds)`: r ← MiMC7(r, m_i). -/
def hashGeneric (seed : Bytes) (iv : Int) (arr : List Int) (nRounds : Nat) : Except Err Int :=
  if !(arr.all inField) then .error .notInField
  else .ok (arr.foldl (fun (r : Int) (m : Int) => (mimc7HashGeneric seed r m nRounds : Int)) iv)

/-- 31-byte little-endian chunks, last one shorter, none for the empty string. -/
def chunks31 (b : Bytes) : List Bytes :=
  if h : b.length = 0 then [] else b.take 31 :: chunks31 (b.drop 31)
termination_by b.length
decreasing_by simp; omega

def hashBytes (cts : List Nat) (b : Bytes) : Except Err Int :=
  hash cts ((chunks31 b).map fun c => (leToNat c : Int)) none

end I3.Model.Mimc7
