/-
  I3.Model.FFInverse — the loop structure of ff.Element.Inverse (binary extended GCD, "Algorithm 16")
  composed, with fuel, from the PIECES regenerated from /repo by T2 (I3.Gen.FFInverse): the pre-loop
  segment, the two inner `for cond {…}` loops (condition + body) and the tail segment of the main loop.
  Only this control skeleton is hand-written; every arithmetic statement is regenerated.
  `none` = fuel exhausted (never happens for canonical non-zero operands: I3.Props.C05Inverse).
-/
import I3.Gen.FFInverse
namespace I3.Model.FFInverse
open I3.Gen.FFInv

structure St where
  bigger : Bool
  borrow : Nat
  carry : Nat
  r0 : Nat
  r1 : Nat
  r2 : Nat
  r3 : Nat
  s0 : Nat
  s1 : Nat
  s2 : Nat
  s3 : Nat
  u0 : Nat
  u1 : Nat
  u2 : Nat
  u3 : Nat
  v0 : Nat
  v1 : Nat
  v2 : Nat
  v3 : Nat
  z0 : Nat
  z1 : Nat
  z2 : Nat
  z3 : Nat

/-- `for v[0]&1 == 0 { v >>= 1; if s odd { s += q }; s >>= 1 }`. -/
def loopV : Nat → St → Option St
  | 0, _ => none
  | f + 1, st =>
    if Inverse_loop1_cond st.carry st.s0 st.s1 st.s2 st.s3 st.v0 st.v1 st.v2 st.v3 then
      match Inverse_loop1_body st.carry st.s0 st.s1 st.s2 st.s3 st.v0 st.v1 st.v2 st.v3 with
      | (carry, s0, s1, s2, s3, v0, v1, v2, v3) =>
        loopV f { st with carry := carry, s0 := s0, s1 := s1, s2 := s2, s3 := s3, v0 := v0, v1 := v1, v2 := v2, v3 := v3 }
    else some st

/-- `for u[0]&1 == 0 { u >>= 1; if r odd { r += q }; r >>= 1 }`. -/
def loopU : Nat → St → Option St
  | 0, _ => none
  | f + 1, st =>
    if Inverse_loop2_cond st.carry st.r0 st.r1 st.r2 st.r3 st.u0 st.u1 st.u2 st.u3 then
      match Inverse_loop2_body st.carry st.r0 st.r1 st.r2 st.r3 st.u0 st.u1 st.u2 st.u3 with
      | (carry, r0, r1, r2, r3, u0, u1, u2, u3) =>
        loopU f { st with carry := carry, r0 := r0, r1 := r1, r2 := r2, r3 := r3, u0 := u0, u1 := u1, u2 := u2, u3 := u3 }
    else some st

/-- the main `for { … }`: inner loops, compare-and-subtract, exit tests. -/
def outer : Nat → St → Option (Nat × Nat × Nat × Nat)
  | 0, _ => none
  | f + 1, st =>
    match loopV 300 st with
    | none => none
    | some st =>
      match loopU 300 st with
      | none => none
      | some st =>
        match Inverse_seg1 st.bigger st.borrow st.carry st.r0 st.r1 st.r2 st.r3 st.s0 st.s1 st.s2 st.s3
            st.u0 st.u1 st.u2 st.u3 st.v0 st.v1 st.v2 st.v3 st.z0 st.z1 st.z2 st.z3 with
        | (some r, _) => some r
        | (none, (bigger, borrow, carry, r0, r1, r2, r3, s0, s1, s2, s3, u0, u1, u2, u3, v0, v1, v2, v3, z0, z1, z2, z3)) =>
          outer f ⟨bigger, borrow, carry, r0, r1, r2, r3, s0, s1, s2, s3, u0, u1, u2, u3, v0, v1, v2, v3, z0, z1, z2, z3⟩

/-- `z.Inverse(x)` on limbs; `z ≡ x` is covered because `v := *x` is copied before anything is written. -/
def inverse (z0 z1 z2 z3 x0 x1 x2 x3 : Nat) : Option (Nat × Nat × Nat × Nat) :=
  match Inverse_pre z0 z1 z2 z3 x0 x1 x2 x3 with
  | (some r, _) => some r
  | (none, (bigger, borrow, carry, r0, r1, r2, r3, s0, s1, s2, s3, u0, u1, u2, u3, v0, v1, v2, v3, z0, z1, z2, z3)) =>
    outer 600 ⟨bigger, borrow, carry, r0, r1, r2, r3, s0, s1, s2, s3, u0, u1, u2, u3, v0, v1, v2, v3, z0, z1, z2, z3⟩

end I3.Model.FFInverse
