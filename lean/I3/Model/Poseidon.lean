/-
  I3.Model.Poseidon — executable model of poseidon.HashWithStateEx (the optimised Hades loop of
  /repo/poseidon/poseidon.go) over canonical naturals, parameterised by the tables (which come from
  I3.Gen, regenerated from /repo).  Guards are modelled in the order the Go code evaluates them.
-/
import I3.Exec.Field
namespace I3.Model.Poseidon

inductive Err where
  | badLen | notInField | badNOuts | stateNotInField | tablePanic
  deriving DecidableEq, Repr

structure Tables where
  C : List Nat
  S : List Nat
  M : List (List Nat)
  P : List (List Nat)

@[inline] def inField (m : Nat) (v : Int) : Bool := decide (0 ≤ v) && decide (v < (m : Int))

/-- `mix`: newState[i] = Σ_j mat[j][i] * state[j]  (column i of `mat`). -/
def mix (m : Nat) (mat : List (List Nat)) (state : List Nat) : List Nat :=
  (List.range state.length).map fun i =>
    (List.zipWith (fun (row : List Nat) (s : Nat) => row.getD i 0 * s) mat state).foldl (fun a b => (a + b) % m) 0

def ark (m : Nat) (state : List Nat) (C : List Nat) (it : Nat) : List Nat :=
  List.zipWith (fun s c => (s + c) % m) state (C.drop it)

def sboxAll (m e : Nat) (state : List Nat) : List Nat := state.map fun x => powMod x e m

/-- one sparse partial round `i`. -/
def partialRound (m e t : Nat) (C S : List Nat) (state : List Nat) (i : Nat) : List Nat :=
  match state with
  | [] => []
  | s0 :: rest =>
    let s0 := (powMod s0 e m + C.getD ((4 + 1) * t + i) 0) % m
    let base := (t * 2 - 1) * i
    let st := s0 :: rest
    let new0 := (List.zipWith (fun a b => a * b) (S.drop base) st).foldl (fun a b => (a + b) % m) 0
    let rest' := List.zipWith (fun sk w => (sk + s0 * w) % m) rest (S.drop (base + t))
    new0 :: rest'

/-- The permutation part (after the guards), for modulus `m`, S-box exponent `e`, `nRoundsF = 8`. -/
def permute (m e : Nat) (tab : Tables) (t rp : Nat) (state : List Nat) : List Nat :=
  let C := tab.C
  let state := ark m state C 0
  let state := (List.range 3).foldl (fun st i => mix m tab.M (ark m (sboxAll m e st) C ((i + 1) * t))) state
  let state := mix m tab.P (ark m (sboxAll m e state) C (4 * t))
  let state := (List.range rp).foldl (partialRound m e t C tab.S) state
  let state := (List.range 3).foldl (fun st i => mix m tab.M (ark m (sboxAll m e st) C ((4 + 1) * t + rp + i * t))) state
  mix m tab.M (sboxAll m e state)

/-- tables large enough for width `t` (otherwise the Go code panics on an index). -/
def tablesOk (tab : Tables) (t rp : Nat) : Bool :=
  decide (tab.C.length ≥ 8 * t + rp) && decide (tab.S.length ≥ (2 * t - 1) * rp) &&
  decide (tab.M.length ≥ t) && tab.M.all (fun r => decide (r.length ≥ t)) &&
  decide (tab.P.length ≥ t) && tab.P.all (fun r => decide (r.length ≥ t))

/-- `HashWithStateEx(inp, initState, nOuts)`. -/
def hashWithStateEx (m e : Nat) (tables : Nat → Option Tables) (nRoundsP : List Nat)
    (inp : List Int) (initState : Int) (nOuts : Int) : Except Err (List Nat) :=
  let t := inp.length + 1
  if inp.length = 0 ∨ inp.length > nRoundsP.length then .error .badLen
  else if !(inp.all (inField m)) then .error .notInField
  else if nOuts < 1 ∨ nOuts > (t : Int) then .error .badNOuts
  else
    match tables t, nRoundsP[t - 2]? with
    | some tab, some rp =>
      if !(inField m initState) then .error .stateNotInField
      else if !(tablesOk tab t rp) then .error .tablePanic
      else
        let state := initState.toNat :: inp.map Int.toNat
        .ok ((permute m e tab t rp state).take nOuts.toNat)
    | _, _ => .error .tablePanic

end I3.Model.Poseidon
