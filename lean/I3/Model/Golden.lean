/-
  I3.Model.Golden — executable model of /repo/goldenposeidon: table construction in `init`
  (NewElementFromUint64 reduces mod p; M is circulant + diagonal) and `Hash`.
-/
import I3.Model.Poseidon
namespace I3.Model.Golden
open I3.Model.Poseidon

/-- the `init` loop: `M[i][j] = mcirc[(i-j+n) % n]`, diagonal `mcirc[0] + mdiag[i]`; all reduced. -/
def buildM (n : Nat) (mcirc mdiag : List Nat) : List (List Nat) :=
  (List.range n).map fun i => (List.range n).map fun j =>
    if i = j then ((mcirc.getD 0 0 + mdiag.getD i 0) % W) % gp
    else (mcirc.getD ((i + n - j) % n) 0) % gp

def buildTables (n : Nat) (c s : List Nat) (p : List (List Nat)) (mcirc mdiag : List Nat) : Tables :=
  { C := c.map (· % gp), S := s.map (· % gp), M := buildM n mcirc mdiag,
    P := (p.take n).map fun row => (row.take n).map (· % gp) }

/-- `Hash(inp[8], cap[4])`: every 64-bit word enters through `SetUint64` (residue mod p). -/
def hash (tab : Tables) (e n rp capLen : Nat) (inp cap : List Nat) : List Nat :=
  let state := (inp ++ cap).map (· % gp)
  (permute gp e tab n rp state).take capLen

end I3.Model.Golden
