/-
  I3.Model.Receiver — the receiver contract of the babyjub methods documented as "stores the result in
  the receiver and returns it": each model returns the pair (receiver after the call, returned value).
  The receiver's previous contents and aliasing with the argument are explicit inputs.
-/
import I3.Model.EdDSA
namespace I3.Model.Receiver
open I3.Model.BabyJub I3.Model.EdDSA

variable (k : Consts) (sqrtFn : Nat → Option Nat)

/-- `p.Mul(s, q)`: `q.Projective()` is taken before anything is stored, the result overwrites `*p`. -/
def pointMul (_recv : APoint) (s : Int) (q : APoint) : APoint × APoint :=
  let r := mul k s q
  (r, r)

/-- `p.Set(c)`: copies both coordinates into the receiver's integers, returns the receiver. -/
def pointSet (_recv : APoint) (c : APoint) : APoint × APoint := (c, c)

/-- `p.Decompress(buf)`: on success the decoded point overwrites `*p` and `p` is returned;
    on error nothing is stored (`none` = receiver unchanged) and nil is returned. -/
def pointDecompress (recv : APoint) (b : Bytes) : APoint × Except BabyJub.Err APoint :=
  match decompress k sqrtFn b with
  | .ok p => (p, .ok p)
  | .error e => (recv, .error e)

/-- `s.Decompress(buf)` on 64 bytes: R8 and S are stored in the receiver, which is returned. -/
def sigDecompressRecv (_recv : Sig) (b : Bytes) : Except EdDSA.Err (Sig × Sig) :=
  match sigDecompress k sqrtFn b with
  | .ok s => .ok (s, s)
  | .error e => .error e

end I3.Model.Receiver
