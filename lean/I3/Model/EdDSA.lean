/-
  I3.Model.EdDSA — executable model of /repo/babyjub/eddsa.go and helpers.go: key derivation,
  signing and verification with an abstract field hash, signature/public-key codecs.
-/
import I3.Model.BabyJub
namespace I3.Model.EdDSA
open I3.Model.BabyJub

inductive Err where
  | hash            -- the digest function reported an error (input outside the field)
  | verifyFailed
  | sOutOfRange
  | point (e : BabyJub.Err)
  | hexBadChar | hexOddLen | hexBadSize
  | scanBadType | scanBadLen
  deriving DecidableEq, Repr

structure Sig where
  r8 : APoint
  s  : Int

variable (k : Consts)
-- `blake` : BLAKE-512; `H` : the five-element field hash (Poseidon or MiMC7), `none` on error.
variable (blake : Bytes → Bytes) (H : List Int → Option Nat)

/-- `pruneBuffer`. -/
def prune (b : Bytes) : Bytes :=
  let b0 := (b.getD 0 0) &&& 0xF8
  let b31 := ((b.getD 31 0) &&& 0x7F) ||| 0x40
  [b0] ++ (b.drop 1).take 30 ++ [b31]

/-- `SkToBigInt`. -/
def skToBigInt (key : Bytes) : Nat := leToNat (prune ((blake key).take 32)) / 8

/-- `PrivateKey.Public` = `Scalar().Public()`. -/
def publicKey (key : Bytes) : APoint := mul k (skToBigInt blake key) k.b8

/-- `SignPoseidon` / `SignMimc7`. -/
def sign (key : Bytes) (msg : Int) : Except Err Sig :=
  let h1 := blake key
  let msgBuf := bigIntLEBytes msg
  let rBuf := blake (h1.drop 32 ++ msgBuf)
  let r : Nat := leToNat rBuf % k.subOrder
  let r8 := mul k r k.b8
  let a := publicKey k blake key
  match H [r8.1, r8.2, a.1, a.2, msg] with
  | none => .error .hash
  | some hm =>
    let s8 : Nat := skToBigInt blake key * 8
    .ok { r8 := r8, s := ((r : Int) + (hm : Int) * (s8 : Int)) % (k.subOrder : Int) }

/-- `VerifyPoseidon` / `VerifyMimc7`. -/
def verify (pk : APoint) (msg : Int) (sig : Sig) : Except Err Unit :=
  if sig.s < 0 ∨ sig.s ≥ (k.subOrder : Int) then .error .sOutOfRange
  else
    match H [sig.r8.1, sig.r8.2, pk.1, pk.2, msg] with
    | none => .error .hash
    | some hm =>
      let left := mul k sig.s k.b8
      let right := mul k (8 * (hm : Int)) pk
      let right := affine k (addProj k (projective k sig.r8) (projective k right))
      if left.1 == right.1 && left.2 == right.2 then .ok () else .error .verifyFailed

/-- `Signature.Compress`. -/
def sigCompress (s : Sig) : Bytes := compress k s.r8 ++ bigIntLEBytes s.s

/-- `Signature.Decompress` on exactly 64 bytes. -/
def sigDecompress (sqrtFn : Nat → Option Nat) (b : Bytes) : Except Err Sig :=
  match decompress k sqrtFn (b.take 32) with
  | .error e => .error (.point e)
  | .ok p => .ok { r8 := p, s := leToNat (b.drop 32) }

end I3.Model.EdDSA
