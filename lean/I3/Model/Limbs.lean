/-
  I3.Model.Limbs — driver glue for the raw limb-level ops: evaluates the kernels translated from
  /repo by T2 (I3.Gen.FFLimbs / FFGLimbs) on the limbs sent by the harness, and the value-level
  reference (`…Spec`) for the same op.  The op's route suffix selects the aliasing variant.
-/
import I3.Exec.Field
import I3.Gen.Consts
import I3.Gen.FFLimbs
import I3.Gen.FFGLimbs
import I3.Gen.FFAsm
import I3.Model.FFInverse
namespace I3.Model.Limbs
open I3

def parseLimbs? (s : String) : Option (List Nat) :=
  if s.startsWith "[" && s.endsWith "]" then
    let inner := ((s.drop 1).dropEnd 1).toString
    if inner.isEmpty then some [] else (inner.splitOn ",").mapM (fun t => t.toNat?)
  else none

def show4 (r : Nat × Nat × Nat × Nat) : String := s!"[{r.1},{r.2.1},{r.2.2.1},{r.2.2.2}]"
def show1 (r : Nat) : String := s!"[{r}]"

def val4 (l : List Nat) : Nat := l.foldr (fun x acc => x + W * acc) 0
def limbs4 (v : Nat) : Nat × Nat × Nat × Nat := (v % W, v / W % W, v / W / W % W, v / W / W / W % W)

/-- Route of a raw op:  `generic[-zx|-zy]` = the portable kernel through the hooks (T2 translation);
    `api|zx|zy:<backend>` = the public API on this build, i.e. on amd64 the ASSEMBLY routine (T3
    translation), with `<backend>` ∈ adx1 (run-time dispatch, ADX present), adx0 (dispatch, no ADX: the
    assembly stub tail-calls the portable kernel), adxonly (build tag amd64_adx).  The aliasing part
    selects the variant of the translation in which the aliased arguments share their cells. -/
def ffRaw (opFull : String) (args : List String) : Option String := do
  let parts := opFull.splitOn "@"
  let op := parts.headD ""
  let route := (parts.getD 1 "")
  let rparts := route.splitOn ":"
  let r0 := rparts.headD ""
  let backend := rparts.getD 1 ""
  let generic := r0.startsWith "generic"
  let pat := if r0.startsWith "generic-" then (r0.drop 8).toString else if r0 = "generic" || r0 = "api" then "" else r0
  let asm := !generic && backend != "" && backend != "portable"
  let adx : Nat := if backend = "adx1" then 1 else 0
  match op, args with
  | "mul", [x, y] =>
    match (← parseLimbs? x), (← parseLimbs? y) with
    | [x0,x1,x2,x3], [y0,y1,y2,y3] =>
      let r :=
        if asm && backend = "adxonly" then
          match pat with
          | "zx" => Gen.FFAsm.mul_adxonly_zx x0 x1 x2 x3 y0 y1 y2 y3
          | "zy" => Gen.FFAsm.mul_adxonly_zy y0 y1 y2 y3 x0 x1 x2 x3
          | _ => Gen.FFAsm.mul_adxonly 0 0 0 0 x0 x1 x2 x3 y0 y1 y2 y3
        else if asm then
          match pat with
          | "zx" => Gen.FFAsm.mul_zx adx x0 x1 x2 x3 y0 y1 y2 y3
          | "zy" => Gen.FFAsm.mul_zy adx y0 y1 y2 y3 x0 x1 x2 x3
          | _ => Gen.FFAsm.mul adx 0 0 0 0 x0 x1 x2 x3 y0 y1 y2 y3
        else
          match pat with
          | "zx" => Gen.FF.mulGeneric_zx x0 x1 x2 x3 y0 y1 y2 y3
          | "zy" => Gen.FF.mulGeneric_zy y0 y1 y2 y3 x0 x1 x2 x3
          | _ => Gen.FF.mulGeneric 0 0 0 0 x0 x1 x2 x3 y0 y1 y2 y3
      pure (show4 r)
    | _, _ => none
  | "square", [x] =>
    match (← parseLimbs? x) with
    | [x0,x1,x2,x3] =>
      let r :=
        if asm && backend = "adxonly" then
          match pat with
          | "zx" => Gen.FFAsm.mul_adxonly_zxy x0 x1 x2 x3
          | _ => Gen.FFAsm.mul_adxonly_xy 0 0 0 0 x0 x1 x2 x3
        else if asm then
          match pat with
          | "zx" => Gen.FFAsm.mul_zxy adx x0 x1 x2 x3
          | _ => Gen.FFAsm.mul_xy adx 0 0 0 0 x0 x1 x2 x3
        else
          match pat with
          | "zx" => Gen.FF.mulGeneric_zxy x0 x1 x2 x3
          | _ => Gen.FF.mulGeneric_xy 0 0 0 0 x0 x1 x2 x3
      pure (show4 r)
    | _ => none
  | "add", [x, y] =>
    match (← parseLimbs? x), (← parseLimbs? y) with
    | [x0,x1,x2,x3], [y0,y1,y2,y3] =>
      let r :=
        if asm then
          match pat with
          | "zx" => Gen.FFAsm.add_zx x0 x1 x2 x3 y0 y1 y2 y3
          | "zy" => Gen.FFAsm.add_zy y0 y1 y2 y3 x0 x1 x2 x3
          | _ => Gen.FFAsm.add 0 0 0 0 x0 x1 x2 x3 y0 y1 y2 y3
        else
          match pat with
          | "zx" => Gen.FF.addGeneric_zx x0 x1 x2 x3 y0 y1 y2 y3
          | "zy" => Gen.FF.addGeneric_zy y0 y1 y2 y3 x0 x1 x2 x3
          | _ => Gen.FF.addGeneric 0 0 0 0 x0 x1 x2 x3 y0 y1 y2 y3
      pure (show4 r)
    | _, _ => none
  | "sub", [x, y] =>
    match (← parseLimbs? x), (← parseLimbs? y) with
    | [x0,x1,x2,x3], [y0,y1,y2,y3] =>
      let r :=
        if asm then
          match pat with
          | "zx" => Gen.FFAsm.sub_zx x0 x1 x2 x3 y0 y1 y2 y3
          | "zy" => Gen.FFAsm.sub_zy y0 y1 y2 y3 x0 x1 x2 x3
          | _ => Gen.FFAsm.sub 0 0 0 0 x0 x1 x2 x3 y0 y1 y2 y3
        else
          match pat with
          | "zx" => Gen.FF.subGeneric_zx x0 x1 x2 x3 y0 y1 y2 y3
          | "zy" => Gen.FF.subGeneric_zy y0 y1 y2 y3 x0 x1 x2 x3
          | _ => Gen.FF.subGeneric 0 0 0 0 x0 x1 x2 x3 y0 y1 y2 y3
      pure (show4 r)
    | _, _ => none
  | "double", [x] =>
    match (← parseLimbs? x) with
    | [x0,x1,x2,x3] =>
      let r :=
        if asm then (match pat with | "zx" => Gen.FFAsm.double_zx x0 x1 x2 x3 | _ => Gen.FFAsm.double 0 0 0 0 x0 x1 x2 x3)
        else (match pat with | "zx" => Gen.FF.doubleGeneric_zx x0 x1 x2 x3 | _ => Gen.FF.doubleGeneric 0 0 0 0 x0 x1 x2 x3)
      pure (show4 r)
    | _ => none
  | "neg", [x] =>
    match (← parseLimbs? x) with
    | [x0,x1,x2,x3] =>
      let r :=
        if asm then (match pat with | "zx" => Gen.FFAsm.neg_zx x0 x1 x2 x3 | _ => Gen.FFAsm.neg 0 0 0 0 x0 x1 x2 x3)
        else (match pat with | "zx" => Gen.FF.negGeneric_zx x0 x1 x2 x3 | _ => Gen.FF.negGeneric 0 0 0 0 x0 x1 x2 x3)
      pure (show4 r)
    | _ => none
  | "frommont", [x] =>
    match (← parseLimbs? x) with
    | [x0,x1,x2,x3] =>
      pure (show4 (if asm && backend = "adxonly" then Gen.FFAsm.fromMont_adxonly x0 x1 x2 x3
                   else if asm then Gen.FFAsm.fromMont adx x0 x1 x2 x3 else Gen.FF.fromMontGeneric x0 x1 x2 x3))
    | _ => none
  | "reduce", [x] =>
    match (← parseLimbs? x) with
    | [x0,x1,x2,x3] => pure (show4 (if asm then Gen.FFAsm.reduce x0 x1 x2 x3 else Gen.FF.reduceGeneric x0 x1 x2 x3))
    | _ => none
  | "halve", [x] =>
    match (← parseLimbs? x) with
    | [x0,x1,x2,x3] => pure (show4 (Gen.FF.Halve x0 x1 x2 x3))
    | _ => none
  | "butterfly", [x, y] =>
    match (← parseLimbs? x), (← parseLimbs? y) with
    | [x0,x1,x2,x3], [y0,y1,y2,y3] =>
      let (a0,a1,a2,a3,b0,b1,b2,b3) :=
        if asm then Gen.FFAsm.Butterfly x0 x1 x2 x3 y0 y1 y2 y3 else Gen.FF.butterflyGeneric x0 x1 x2 x3 y0 y1 y2 y3
      pure s!"{show4 (a0,a1,a2,a3)} {show4 (b0,b1,b2,b3)}"
    | _, _ => none
  | "butterflyab", [x] =>
    -- Butterfly(a, a): both arguments the same element
    match (← parseLimbs? x) with
    | [x0,x1,x2,x3] =>
      pure (show4 (if asm then Gen.FFAsm.Butterfly_ab x0 x1 x2 x3 else Gen.FF.butterflyGeneric_ab x0 x1 x2 x3))
    | _ => none
  | "mulby3", [x] | "mulby5", [x] | "mulby13", [x] =>
    let c := if op = "mulby3" then 3 else if op = "mulby5" then 5 else 13
    match (← parseLimbs? x) with
    | [x0,x1,x2,x3] =>
      pure (show4 (if asm then (if c = 3 then Gen.FFAsm.MulBy3 x0 x1 x2 x3 else if c = 5 then Gen.FFAsm.MulBy5 x0 x1 x2 x3 else Gen.FFAsm.MulBy13 x0 x1 x2 x3)
                   else Gen.FF.mulByConstant x0 x1 x2 x3 c))
    | _ => none
  | "inverse", [x] =>
    -- the binary extended-GCD loop: hand-written loop skeleton over the pieces regenerated by T2
    match (← parseLimbs? x) with
    | [x0,x1,x2,x3] =>
      match (if pat = "zx" then Model.FFInverse.inverse x0 x1 x2 x3 x0 x1 x2 x3 else Model.FFInverse.inverse 0 0 0 0 x0 x1 x2 x3) with
      | some r => pure (show4 r)
      | none => pure "FUEL-EXHAUSTED"
    | _ => none
  | "backend", [] => pure "adx=?"
  | _, _ => none

def ffgRaw (opFull : String) (args : List String) : Option String := do
  let parts := opFull.splitOn "@"
  let op := parts.headD ""
  let pat := ((parts.getD 1 "").splitOn ":").headD ""
  let pat := if pat = "api" then "" else pat
  let pat := if pat.startsWith "generic-" then (pat.drop 8).toString else if pat = "generic" then "" else pat
  match op, args with
  | "mul", [x, y] =>
    match (← parseLimbs? x), (← parseLimbs? y) with
    | [x0], [y0] =>
      pure (show1 (match pat with
        | "zx" => Gen.FFG.mulGeneric_zx x0 y0
        | "zy" => Gen.FFG.mulGeneric_zy y0 x0
        | _ => Gen.FFG.mulGeneric 0 x0 y0))
    | _, _ => none
  | "square", [x] =>
    match (← parseLimbs? x) with
    | [x0] => pure (show1 (match pat with | "zx" => Gen.FFG.mulGeneric_zxy x0 | _ => Gen.FFG.mulGeneric_xy 0 x0))
    | _ => none
  | "add", [x, y] =>
    match (← parseLimbs? x), (← parseLimbs? y) with
    | [x0], [y0] =>
      pure (show1 (match pat with
        | "zx" => Gen.FFG.addGeneric_zx x0 y0
        | "zy" => Gen.FFG.addGeneric_zy y0 x0
        | _ => Gen.FFG.addGeneric 0 x0 y0))
    | _, _ => none
  | "sub", [x, y] =>
    match (← parseLimbs? x), (← parseLimbs? y) with
    | [x0], [y0] =>
      pure (show1 (match pat with
        | "zx" => Gen.FFG.subGeneric_zx x0 y0
        | "zy" => Gen.FFG.subGeneric_zy y0 x0
        | _ => Gen.FFG.subGeneric 0 x0 y0))
    | _, _ => none
  | "double", [x] =>
    match (← parseLimbs? x) with
    | [x0] => pure (show1 (match pat with | "zx" => Gen.FFG.doubleGeneric_zx x0 | _ => Gen.FFG.doubleGeneric 0 x0))
    | _ => none
  | "neg", [x] =>
    match (← parseLimbs? x) with
    | [x0] => pure (show1 (match pat with | "zx" => Gen.FFG.negGeneric_zx x0 | _ => Gen.FFG.negGeneric 0 x0))
    | _ => none
  | "frommont", [x] =>
    match (← parseLimbs? x) with
    | [x0] => pure (show1 (Gen.FFG.fromMontGeneric x0))
    | _ => none
  | "reduce", [x] =>
    match (← parseLimbs? x) with
    | [x0] => pure (show1 (Gen.FFG.reduceGeneric x0))
    | _ => none
  | "halve", [x] =>
    -- ffg.Halve multiplies by the inverse of two (no limb kernel of its own)
    match (← parseLimbs? x) with
    | [x0] => pure (show1 (x0 * invMod 2 gp % gp))
    | _ => none
  | "butterfly", [x, y] =>
    match (← parseLimbs? x), (← parseLimbs? y) with
    | [x0], [y0] =>
      let (a0, b0) := Gen.FFG.butterflyGeneric x0 y0
      pure s!"{show1 a0} {show1 b0}"
    | _, _ => none
  | "butterflyab", [x] =>
    match (← parseLimbs? x) with
    | [x0] => pure (show1 (Gen.FFG.butterflyGeneric_ab x0))
    | _ => none
  | "mulby3", [x] | "mulby5", [x] | "mulby13", [x] =>
    let c := if op = "mulby3" then 3 else if op = "mulby5" then 5 else 13
    match (← parseLimbs? x) with
    | [x0] => pure (show1 (Gen.FFG.mulByConstant x0 c))
    | _ => none
  | "inverse", [x] =>
    match (← parseLimbs? x) with
    | [x0] => pure (show1 (invMod x0 gp * (W % gp) % gp * (W % gp) % gp))
    | _ => none
  | _, _ => none

/-- value-level reference for the raw ops: Montgomery limbs ↦ the field operation on `val·R⁻¹`. -/
def rawSpec (m : Nat) (nl : Nat) (opFull : String) (args : List String) : Option String := do
  let op := (opFull.splitOn "@").headD ""
  let R := W ^ nl
  let Rinv := invMod (R % m) m
  let out (v : Nat) : String :=
    "[" ++ ",".intercalate ((List.range nl).map fun i => toString (v / W ^ i % W)) ++ "]"
  let a ← args.mapM parseLimbs?
  let vals := a.map val4
  match op, vals with
  | "mul", [x, y] => pure (out (x * y % m * Rinv % m))
  | "square", [x] => pure (out (x * x % m * Rinv % m))
  | "add", [x, y] => pure (out ((x + y) % m))
  | "sub", [x, y] => pure (out ((x + (m - y % m)) % m))
  | "double", [x] => pure (out ((x + x) % m))
  | "neg", [x] => pure (out ((m - x % m) % m))
  | "frommont", [x] => pure (out (x * Rinv % m))
  | "reduce", [x] => pure (out (if x < m then x else x - m))
  | "halve", [x] => pure (out (x * invMod 2 m % m))
  | "butterfly", [x, y] => pure (out ((x + y) % m) ++ " " ++ out ((x + (m - y % m)) % m))
  | "butterflyab", [x] => if nl = 4 then pure (out ((x + x) % m)) else none
  | "mulby3", [x] => pure (out (3 * x % m))
  | "mulby5", [x] => pure (out (5 * x % m))
  | "mulby13", [x] => pure (out (13 * x % m))
  | "inverse", [x] => pure (out (invMod x m * (R % m) % m * (R % m) % m))
  | _, _ => pure "-"

def ffRawSpec (op : String) (args : List String) : Option String := rawSpec q 4 op args
def ffgRawSpec (op : String) (args : List String) : Option String := rawSpec gp 1 op args

end I3.Model.Limbs
