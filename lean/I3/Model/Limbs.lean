/- I3.Model.Limbs — raw limb-kernel ops (driver side); wired to I3.Gen.Limbs by T2. -/
namespace I3.Model.Limbs
def ffRaw (_op : String) (_args : List String) : Option String := none
def ffgRaw (_op : String) (_args : List String) : Option String := none
def ffRawSpec (_op : String) (_args : List String) : Option String := none
def ffgRawSpec (_op : String) (_args : List String) : Option String := none
end I3.Model.Limbs
