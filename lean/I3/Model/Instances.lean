/-
  I3.Model.Instances — the models instantiated at the constants regenerated from /repo (I3.Gen.*).
  Shared by the driver (correspondence) and by the property theorems, so both talk about the same
  definitions.
-/
import I3.Exec.Field
import I3.Exec.Bytes
import I3.Exec.Keccak
import I3.Exec.Blake512
import I3.Gen.Consts
import I3.Gen.PoseidonTables
import I3.Model.Poseidon
import I3.Model.Mimc7
import I3.Model.Golden
import I3.Model.FF
import I3.Model.BabyJub
import I3.Model.EdDSA
import I3.Model.Codec
namespace I3.Inst
open I3

def limbsVal (l : List Nat) : Nat := l.foldr (fun x acc => x + W * acc) 0

def ffCfg : Model.FF.Cfg :=
  { m := Gen.ff_modulus, limbs := Gen.ff_qElement.length, sqrtExp := Gen.ff_sqrtExp, legExp := Gen.ff_legendreExp,
    gMont := limbsVal Gen.ff_sqrtG, r := Gen.ff_sqrtR, lexHalf := limbsVal Gen.ff_lexLimbs }
def ffgCfg : Model.FF.Cfg :=
  { m := Gen.ffg_modulus, limbs := Gen.ffg_qElement.length, sqrtExp := Gen.ffg_sqrtExp, legExp := Gen.ffg_legendreExp,
    gMont := limbsVal Gen.ffg_sqrtG, r := Gen.ffg_sqrtR, lexHalf := limbsVal Gen.ffg_lexLimbs }

def bjConsts : Model.BabyJub.Consts :=
  { q := Gen.constants_q, a := Gen.babyjub_A, d := Gen.babyjub_D, order := Gen.babyjub_Order,
    subOrder := Gen.babyjub_Order >>> Gen.babyjub_SubOrderShift, b8 := (Gen.babyjub_B8x, Gen.babyjub_B8y) }

def pTables (t : Nat) : Option Model.Poseidon.Tables :=
  (Gen.poseidonTables t).map fun x => { C := x.C, S := x.S, M := x.M, P := x.P }

def poseidonEx (inp : List Int) (st : Int) (n : Int) : Except Model.Poseidon.Err (List Nat) :=
  Model.Poseidon.hashWithStateEx Gen.constants_q Gen.poseidon_sboxExp pTables Gen.poseidon_NROUNDSP inp st n

def mimcSeed : Bytes := Gen.mimc7_SEED.toUTF8.toList
def mimcCts : List Nat := Model.Mimc7.getConstants mimcSeed Gen.mimc7_nRounds

def goldenTab : Model.Poseidon.Tables :=
  Model.Golden.buildTables Gen.golden_mLen Gen.golden_c Gen.golden_s Gen.golden_p Gen.golden_mcirc Gen.golden_mdiag

def hPoseidon (l : List Int) : Option Nat :=
  match poseidonEx l 0 1 with | .ok [h] => some h | _ => none
def hMimc7 (l : List Int) : Option Nat :=
  match Model.Mimc7.hash mimcCts l none with | .ok h => some h.toNat | _ => none
def hashBy (name : String) : Option (List Int → Option Nat) :=
  if name = "poseidon" then some hPoseidon else if name = "mimc7" then some hMimc7 else none

/-- stand-in for `big.Int.ModSqrt(x, q)`: the Tonelli–Shanks model of ff.Sqrt, proved correct in
    I3.Props.C18 (`ff_sqrt_some`, `ff_sqrt_none_iff`).  Which root is returned is irrelevant for the
    decompression model (the sign bit selects it). -/
def sqrtQ (x : Nat) : Option Nat := Model.FF.sqrt ffCfg (x % Gen.constants_q)


def blake (b : Bytes) : Bytes := Blake.blake512 b

end I3.Inst
