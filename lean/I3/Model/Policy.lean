/-
  I3.Policy — the write discipline against which the regenerated write sites (I3.Gen.Effects,
  produced by tools/effects from /repo) are checked.  Core-only and decidable.

  A write site is ALLOWED when every possible origin of the written object is
    * `fresh`  — allocated by the operation itself (new/make/composite literal/value copy/constructor),
    * `pool`   — taken from the sync.Pool and held exclusively until Put,
    * `recv`   — only in a method documented as storing its result in the receiver
                 (setter-style Element methods, Point.Set/Mul/Decompress, PointProjective.Add,
                 Signature.Decompress, Scan/UnmarshalText), or in an unexported method (then the
                 write is charged to its callers: the call itself is a write site there),
    * `param i`— only for a documented destination parameter (ToBigInt(res), ToBigIntRegular(res),
                 SetBigIntFromLEBytes(v,·), HexDecodeInto(dst,·), MulBy3/5/13(x), Butterfly(a,b)),
                 or in an unexported function (charged to the callers likewise),
    * `global` — only inside `init` (package initialisation, before any operation can run).
  `unknown` origins are never allowed.

  Sites of kind "capture-global" are not writes but ESCAPES: a pointer to a package-level object is stored
  into (or handed to a function that stores it into) an object that outlives the statement, so that a later
  legitimate write through that object would modify the constant (e.g. `*p = *q` with q = B8).  They carry
  the origin `global g` and are therefore allowed only inside `init`, by the same rule.
-/
namespace I3.Policy

inductive Origin where
  | fresh | pool | recv | param (i : Nat) | global (name : String) | unknown
  deriving DecidableEq, Repr

structure Site where
  pkg : String
  fn : String
  line : Nat
  kind : String
  what : String
  origins : List Origin
  exported : Bool
  deriving Repr

structure PoolUse where
  pkg : String
  fn : String
  line : Nat
  putKind : String
  puts : Nat
  usesAfterPut : Nat
  escapes : Nat
  deriving Repr

def elementSetters : List String :=
  ["Element.Add", "Element.Div", "Element.Double", "Element.Exp", "Element.FromMont", "Element.Halve",
   "Element.Inverse", "Element.Mul", "Element.Neg", "Element.Set", "Element.SetBigInt", "Element.SetBytes",
   "Element.SetInterface", "Element.SetOne", "Element.SetRandom", "Element.SetString", "Element.SetUint64",
   "Element.SetZero", "Element.Sqrt", "Element.Square", "Element.Sub", "Element.ToMont"]

/-- exported methods documented as storing their result in the receiver. -/
def receiverWriters : List (String × String) :=
  (elementSetters.map fun m => ("ff", m)) ++ (elementSetters.map fun m => ("ffg", m)) ++
  [("babyjub", "Point.Set"), ("babyjub", "Point.Mul"), ("babyjub", "Point.Decompress"),
   ("babyjub", "PointProjective.Add"), ("babyjub", "Signature.Decompress"), ("babyjub", "Signature.Scan"),
   ("babyjub", "PublicKey.Scan"), ("babyjub", "PublicKey.UnmarshalText"),
   ("babyjub", "PublicKeyComp.Scan"), ("babyjub", "PublicKeyComp.UnmarshalText"),
   ("babyjub", "SignatureComp.Scan"), ("babyjub", "SignatureComp.UnmarshalText")]

/-- exported functions with a documented destination parameter. -/
def destinations : List (String × String × Nat) :=
  [("utils", "HexDecodeInto", 0), ("utils", "SetBigIntFromLEBytes", 0),
   ("ff", "Element.ToBigInt", 0), ("ff", "Element.ToBigIntRegular", 0),
   ("ffg", "Element.ToBigInt", 0), ("ffg", "Element.ToBigIntRegular", 0),
   ("ff", "MulBy3", 0), ("ff", "MulBy5", 0), ("ff", "MulBy13", 0), ("ff", "Butterfly", 0), ("ff", "Butterfly", 1),
   ("ffg", "MulBy3", 0), ("ffg", "MulBy5", 0), ("ffg", "MulBy13", 0), ("ffg", "Butterfly", 0), ("ffg", "Butterfly", 1)]

def originAllowed (s : Site) : Origin → Bool
  | .fresh => true
  | .pool => true
  | .recv => !s.exported || receiverWriters.contains (s.pkg, s.fn)
  | .param i => !s.exported || destinations.contains (s.pkg, s.fn, i)
  | .global _ => s.fn == "init"
  | .unknown => false

def allowed (s : Site) : Bool := !s.origins.isEmpty && s.origins.all (originAllowed s)

/-- no operation (anything but `init`) writes a package-level object: premise of the concurrency theorem. -/
def noGlobalWriteOutsideInit (s : Site) : Bool :=
  s.fn == "init" || s.origins.all fun o => match o with | .global _ => false | _ => true

/-- pool discipline: the object is put back exactly once (one Put site, deferred or plain — a second
    Put would place the same object in the pool twice and hand it to two goroutines), never used
    afterwards, never stored or returned. -/
def poolOk (p : PoolUse) : Bool :=
  (p.putKind == "defer" || p.putKind == "stmt") && p.puts == 1 && p.usesAfterPut == 0 && p.escapes == 0

end I3.Policy
