/-
  I3.Model.Codec — executable model of /repo/utils (hex and endianness helpers, range check) and
  of the text / database codecs in /repo/babyjub/eddsa.go.
-/
import I3.Model.EdDSA
namespace I3.Model.Codec
open I3.Model.BabyJub I3.Model.EdDSA

/-- `utils.SwapEndianness`. -/
def swapEndianness (bs : Bytes) : Bytes := bs.reverse

/-- `utils.SetBigIntFromLEBytes`. -/
def setBigIntFromLEBytes (bs : Bytes) : Nat := leToNat bs

/-- `utils.HexEncode`: "0x" ++ lower-case hex. -/
def hexEncode0x (bs : Bytes) : List Char := '0' :: 'x' :: hexEncodeChars bs

def stripPrefix0x (h : List Char) : List Char :=
  match h with
  | '0' :: 'x' :: rest => rest
  | _ => h

def hexErr : HexErr → EdDSA.Err
  | .badChar => .hexBadChar
  | .oddLen => .hexOddLen

/-- `utils.HexDecode`: one optional "0x", then `hex.DecodeString`. -/
def hexDecode (h : List Char) : Except EdDSA.Err Bytes :=
  match hexDecodeChars (stripPrefix0x h) with
  | (r, none) => .ok r
  | (_, some e) => .error (hexErr e)

/-- `utils.HexDecodeInto(dst, h)` for `len(dst) = n`: the new contents of `dst` on success. -/
def hexDecodeInto (n : Nat) (h : List Char) : Except EdDSA.Err Bytes :=
  let h := stripPrefix0x h
  if h.length / 2 ≠ n then .error .hexBadSize
  else
    match hexDecodeChars h with
    | (r, none) => if r.length ≠ n then .error .hexBadSize else .ok r
    | (_, some e) => .error (hexErr e)

/-- the dynamic types a `database/sql` driver may hand to `Scan` (plus a few more Go types). -/
inductive Src where
  | nil | int64 (v : Int) | float64 | bool (b : Bool) | bytes (b : Bytes) | string (s : List Char) | time
  | array32 (b : Bytes) | array64 (b : Bytes)

/-- `Scan` of the fixed-size array types (`PublicKeyComp` 32, `SignatureComp` 64). -/
def scanFixed (n : Nat) (src : Src) : Except EdDSA.Err Bytes :=
  match src with
  | .bytes b => if b.length ≠ n then .error .scanBadLen else .ok b
  | _ => .error .scanBadType

variable (k : Consts) (sqrtFn : Nat → Option Nat)

/-- `PublicKey.Scan`. -/
def scanPublicKey (src : Src) : Except EdDSA.Err APoint :=
  match scanFixed 32 src with
  | .error e => .error e
  | .ok b => match decompress k sqrtFn b with
    | .error e => .error (.point e)
    | .ok p => .ok p

/-- `Signature.Scan`. -/
def scanSignature (src : Src) : Except EdDSA.Err Sig :=
  match scanFixed 64 src with
  | .error e => .error e
  | .ok b => sigDecompress k sqrtFn b

/-- `PublicKey.UnmarshalText`. -/
def unmarshalPublicKey (h : List Char) : Except EdDSA.Err APoint :=
  match hexDecodeInto 32 h with
  | .error e => .error e
  | .ok b => match decompress k sqrtFn b with
    | .error e => .error (.point e)
    | .ok p => .ok p

/-- `PublicKey.MarshalText` / `String`. -/
def marshalPublicKey (p : APoint) : List Char := hexEncodeChars (compress k p)

/-- `DecompressSig` (helpers.go): hex text → SignatureComp → Signature. -/
def decompressSigText (h : List Char) : Except EdDSA.Err Sig :=
  match hexDecodeInto 64 h with
  | .error e => .error e
  | .ok b => sigDecompress k sqrtFn b

end I3.Model.Codec
