/-
  I3.Model.BabyJub — executable model of /repo/babyjub/babyjub.go: projective add-2008-bbjlp,
  LSB-first double-and-add, membership predicates, compression.  Affine points carry arbitrary
  integers (as `*big.Int` does); projective coordinates are canonical field values.
-/
import I3.Exec.Field
import I3.Exec.Bytes
namespace I3.Model.BabyJub

structure Consts where
  q : Nat
  a : Nat
  d : Nat
  order : Nat
  subOrder : Nat
  b8 : Int × Int

abbrev APoint := Int × Int                 -- Point{X,Y *big.Int}
abbrev PPoint := Nat × Nat × Nat           -- PointProjective{X,Y,Z *ff.Element}, canonical values

inductive Err where
  | yTooBig | divZero | notSquare | signOfZero
  deriving DecidableEq, Repr

variable (k : Consts)

def projective (p : APoint) : PPoint := (imod p.1 k.q, imod p.2 k.q, 1 % k.q)

/-- `PointProjective.Affine`: Z = 0 ↦ (0,0). -/
def affine (p : PPoint) : APoint :=
  let (x, y, z) := p
  if z = 0 then (0, 0)
  else
    let zi := invMod z k.q
    ((x * zi % k.q : Nat), (y * zi % k.q : Nat))

/-- `PointProjective.Add` — add-2008-bbjlp. -/
def addProj (p1 p2 : PPoint) : PPoint :=
  let m := k.q
  let (x1, y1, z1) := p1
  let (x2, y2, z2) := p2
  let a := z1 * z2 % m
  let b := a * a % m
  let c := x1 * x2 % m
  let d := y1 * y2 % m
  let e := (k.d % m) * c % m * d % m
  let f := (b + (m - e)) % m
  let g := (b + e) % m
  let x1y1 := (x1 + y1) % m
  let x2y2 := (x2 + y2) % m
  let x3 := x1y1 * x2y2 % m
  let x3 := (x3 + (m - c)) % m
  let x3 := (x3 + (m - d)) % m
  let x3 := x3 * a % m
  let x3 := x3 * f % m
  let ac := (k.a % m) * c % m
  let y3 := (d + (m - ac)) % m
  let y3 := y3 * a % m
  let y3 := y3 * g % m
  let z3 := f * g % m
  (x3, y3, z3)

/-- `big.Int.Bit(i)` (two's complement for negatives) and `BitLen` (of the absolute value). -/
def intBit (s : Int) (i : Nat) : Nat :=
  if s ≥ 0 then bitAt s.toNat i else 1 - bitAt ((-s).toNat - 1) i
def intBitLen (s : Int) : Nat := bitLen s.natAbs

/-- the loop of `Point.Mul`: res accumulates, exp doubles, bits LSB first. -/
def mulLoop (s : Int) : Nat → Nat → PPoint → PPoint → PPoint
  | 0, _, res, _ => res
  | n+1, i, res, e =>
    let res := if intBit s i = 1 then addProj k res e else res
    mulLoop s n (i + 1) res (addProj k e e)

def mul (s : Int) (p : APoint) : APoint :=
  affine k (mulLoop k s (intBitLen s) 0 (0, 1 % k.q, 1 % k.q) (projective k p))

/-- `Point.InCurve` on arbitrary integers. -/
def inCurve (p : APoint) : Bool :=
  let m : Int := k.q
  let x2 := (p.1 * p.1) % m
  let y2 := (p.2 * p.2) % m
  let a := ((k.a : Int) * x2 + y2) % m
  let b := (1 + (k.d : Int) * x2 * y2) % m
  a == b

def inSubGroup (p : APoint) : Bool :=
  if !(inCurve k p) then false
  else
    let r := mul k k.subOrder p
    r.1 == 0 && r.2 == 1

def pointCoordSign (c : Int) : Bool := decide (c > ((k.q / 2 : Nat) : Int))

/-- `utils.BigIntLEBytes`: low 32 little-endian bytes of |v|. -/
def bigIntLEBytes (v : Int) : Bytes := natToLE 32 v.natAbs

def packSignY (sign : Bool) (y : Int) : Bytes :=
  let le := bigIntLEBytes y
  if sign then (le.take 31) ++ [(le.getD 31 0) ||| 0x80] else le

def unpackSignY (b : Bytes) : Bool × Nat :=
  let last := b.getD 31 0
  let sign := (last &&& 0x80) != 0
  (sign, leToNat (b.take 31 ++ [last &&& 0x7F]))

def compress (p : APoint) : Bytes := packSignY (pointCoordSign k p.1) p.2

/-- `PointFromSignAndY`, with the modular square root as a parameter (`big.Int.ModSqrt`). -/
def pointFromSignAndY (sqrtFn : Nat → Option Nat) (sign : Bool) (y : Int) : Except Err APoint :=
  let m : Int := k.q
  if y ≥ m then .error .yTooBig
  else
    let y2 := (y * y) % m
    let xa := 1 - y2
    let xb := (k.a : Int) - ((k.d : Int) * y2) % m
    if xb = 0 then .error .divZero
    else
      let xbInv := invMod (imod xb k.q) k.q
      let x := imod (xa * (xbInv : Int)) k.q
      match sqrtFn x with
      | none => .error .notSquare
      | some r =>
        if sign && r == 0 then .error .signOfZero
        else
          let r' : Int := if sign != pointCoordSign k r then -(r : Int) else r
          .ok (imod r' k.q, y)

def decompress (sqrtFn : Nat → Option Nat) (b : Bytes) : Except Err APoint :=
  let (sign, y) := unpackSignY b
  pointFromSignAndY k sqrtFn sign y

end I3.Model.BabyJub
