/-
  DriverGen — runs the definitions REGENERATED from the Go source by translator T6 (I3.Gen.Go*) on the
  op lines of the correspondence harness and prints results in the harness's format; `-` for ops that
  have no generated counterpart.  The check compares this column with the compiled Go code on every
  run: that is what validates T6's translation rules (I3.Exec.Go) on the current source.
  Core-only; built as the native executable `drivergen`.
-/
import I3.Gen.GoKeccak
import I3.Gen.GoFF
import I3.Gen.GoFFLimb
import I3.Gen.GoFFGLimb
import I3.Gen.GoKeccak
import I3.Gen.GoFFG
import I3.Gen.GoUtils
import I3.Gen.GoPoseidon
import I3.Gen.GoMimc7
import I3.Gen.GoGolden
import I3.Gen.GoBabyjub
import I3.Gen.GoIndex
import I3.Gen.GoPoseidonInit
import I3.Gen.GoChkUtils
import I3.Gen.GoChkPoseidon
import I3.Gen.GoChkMimc7
import I3.Gen.GoChkGolden
import I3.Gen.GoChkBabyjub
import I3.Gen.GoChkKeccak
import I3.Gen.GoChkFF
import I3.Gen.GoChkFFG
import I3.Gen.GoChkFFLimb
import I3.Gen.GoChkFFGLimb
import I3.Gen.GoPoseidonLimb
import I3.Gen.GoMimc7Limb
import I3.Gen.GoBabyjubLimb
import I3.Gen.GoGoldenLimb
open I3 I3.Gen.Go

def parseInt? (s : String) : Option Int := s.toInt?
def parseNat? (s : String) : Option Nat := s.toNat?
def parseBytes? (s : String) : Option Bytes :=
  if s.startsWith "x" then hexDecodeOk (s.drop 1).toString.toList else none
def parseIntList? (s : String) : Option (List Int) :=
  if s = "[]" then some [] else
  if s.startsWith "[" && s.endsWith "]" then
    (((s.drop 1).dropEnd 1).toString.splitOn ",").mapM (·.toInt?)
  else none
def parseNatList? (s : String) : Option (List Nat) := (parseIntList? s).map (·.map Int.toNat)
def showBytes (b : Bytes) : String := "x" ++ hexEncode b
def showList {α} (f : α → String) (l : List α) : String := "[" ++ ",".intercalate (l.map f) ++ "]"
def showPt (p : Int × Int) : String := s!"({p.1},{p.2})"
def showBool (b : Bool) : String := if b then "true" else "false"

/-- the harness's `classify`: error message ↦ kind. -/
def classifyErr (m : String) : String :=
  if m = "ErrVerifyPoseidonFailed" ∨ m = "ErrVerifyMimc7Failed" then "ERR:verifyFailed"
  else if m = "ErrSOutOfRange" then "ERR:sOutOfRange"
  else if m.startsWith "invalid inputs length" then "ERR:badLen"
  else if m = "inputs values not inside Finite Field" then "ERR:notInField"
  else if m.startsWith "invalid nOuts" then "ERR:badNOuts"
  else if m = "initState values not inside Finite Field" then "ERR:stateNotInField"
  else if m = "p.y >= Q" then "ERR:yTooBig"
  else if m = "division by 0" then "ERR:divZero"
  else if m = "x is not a square mod q" then "ERR:notSquare"
  else if m = "x is zero but sign bit is set" then "ERR:signOfZero"
  else if m = "hex.InvalidByteError" then "ERR:hexBadChar"
  else if m = "hex.ErrLength" then "ERR:hexOddLen"
  else if m.startsWith "expected" then "ERR:hexBadSize"
  else if m.startsWith "can't scan []byte of len" then "ERR:scanBadLen"
  else if m.startsWith "can't scan" then "ERR:scanBadType"
  else "ERR:other:" ++ m.replace " " "_"

def parseSrc? (kind payload : String) : Option I3.Go.Any :=
  match kind with
  | "nil" => some .nil
  | "int64" => payload.toInt?.map .int64
  | "float64" => some .float64
  | "bool" => some (.bool (payload == "true"))
  | "bytes" => (parseBytes? payload).map .bytes
  | "string" => (parseBytes? payload).map fun b => .string (String.ofList (I3.Go.Ext.bytesToChars b))
  | "time" => some .time
  | "array32" => (parseBytes? payload).map .array32
  | "array64" => (parseBytes? payload).map .array64
  | _ => none

def zeros (n : Nat) : Bytes := List.replicate n 0

/-! limb-level ops: an operand arrives as an integer; the element is built by the GENERATED `SetBigInt` into a
    destination whose limbs are all stale, results are read back through the GENERATED `ToBigIntRegular`. -/
def stale (n : Nat) : List Nat := (List.range n).map fun i => 0xdeadbeef00000001 + i
-- operands are built exactly as the harness builds them: `NewElement().SetBigInt(v)` (fresh destination);
-- only the ops that TEST a constructor use a stale destination, as the harness does
def ffEl (v : Int) : List Nat := (ffl_Element_SetBigInt ffl_NewElement v).1
def ffgEl (v : Int) : List Nat := (ffgl_Element_SetBigInt ffgl_NewElement v).1
def ffVal (l : List Nat) : String := toString (ffl_Element_ToBigIntRegular l (-5)).1
def ffgVal (l : List Nat) : String := toString (ffgl_Element_ToBigIntRegular l (-5)).1

def limbOp (ff : Bool) (op : String) (args : List String) : Option String := do
  let el := fun (v : Int) => if ff then ffEl v else ffgEl v
  let val := fun (l : List Nat) => if ff then ffVal l else ffgVal l
  let n := if ff then 4 else 1
  match op, args with
  | "setbigint", [v] =>
    let v ← parseInt? v
    pure (val (if ff then (ffl_Element_SetBigInt (stale n) v).1 else (ffgl_Element_SetBigInt (stale n) v).1))
  | "setstring", [v] => pure (val (if ff then (ffl_Element_SetString (stale n) v).1 else (ffgl_Element_SetString (stale n) v).1))
  | "setbytes", [b] =>
    let b ← parseBytes? b
    pure (val (if ff then (ffl_Element_SetBytes (stale n) b).1 else (ffgl_Element_SetBytes (stale n) b).1))
  | "setuint64", [v] =>
    let v ← parseNat? v
    let z := if ff then (ffl_Element_SetUint64 (stale n) v).1 else (ffgl_Element_SetUint64 (stale n) v).1
    let z2 := if ff then ffl_NewElementFromUint64 v else ffgl_NewElementFromUint64 v
    pure (if z == z2 then val z else val z ++ "!NewElementFromUint64-differs")
  | "setinterface", [kind, payload] =>
    -- the dynamic dispatch on the type is the Go runtime's; each case of the type switch is a regenerated definition
    let z := stale n
    let res := fun (r : List Nat × Option String × List Nat) =>
      match r.2.1 with
      | some msg => if msg.startsWith "can't set ff" then "ERR:badType" else "ERR:other"
      | none => if r.1 == r.2.2 then val r.1 else val r.1 ++ "!receiver-differs"
    match kind with
    | "element" =>
      let x := el (← parseInt? payload)
      pure (res (if ff then ffl_Element_SetInterface_case_ff_Element z x else ffgl_Element_SetInterface_case_ffg_Element z x))
    | "elementptr" =>
      let x := el (← parseInt? payload)
      pure (res (if ff then ffl_Element_SetInterface_case_ptr_ff_Element z x else ffgl_Element_SetInterface_case_ptr_ffg_Element z x))
    | "uint64" =>
      let v ← parseNat? payload
      pure (res (if ff then ffl_Element_SetInterface_case_uint64 z v else ffgl_Element_SetInterface_case_uint64 z v))
    | "int" =>
      let v ← parseInt? payload
      pure (res (if ff then ffl_Element_SetInterface_case_int z v else ffgl_Element_SetInterface_case_int z v))
    | "string" => pure (res (if ff then ffl_Element_SetInterface_case_string z payload else ffgl_Element_SetInterface_case_string z payload))
    | "bigintptr" =>
      let v ← parseInt? payload
      pure (res (if ff then ffl_Element_SetInterface_case_ptr_big_Int z v else ffgl_Element_SetInterface_case_ptr_big_Int z v))
    | "bigint" =>
      let v ← parseInt? payload
      pure (res (if ff then ffl_Element_SetInterface_case_big_Int z v else ffgl_Element_SetInterface_case_big_Int z v))
    | "bytes" =>
      let b ← parseBytes? payload
      pure (res (if ff then ffl_Element_SetInterface_case_slice_byte z b else ffgl_Element_SetInterface_case_slice_byte z b))
    | other => pure (res (if ff then ffl_Element_SetInterface_default z other else ffgl_Element_SetInterface_default z other))
  | "tobigint", [x] => pure (val (el (← parseInt? x)))
  | "montbigint", [x] =>
    let l := el (← parseInt? x)
    pure (toString (if ff then (ffl_Element_ToBigInt l 0).1 else (ffgl_Element_ToBigInt l 0).1))
  | "bytes", [x] =>
    let l := el (← parseInt? x)
    let (b, m) := if ff then (ffl_Element_Bytes l, ffl_Element_Marshal l) else (ffgl_Element_Bytes l, ffgl_Element_Marshal l)
    pure (if b == m then showBytes b else showBytes b ++ "!Marshal-differs")
  | "string", [x] =>
    let l := el (← parseInt? x)
    pure (if ff then ffl_Element_String l else ffgl_Element_String l)
  | "cmp", [x, y] =>
    let (a, b) := (el (← parseInt? x), el (← parseInt? y))
    pure (toString (if ff then ffl_Element_Cmp a b else ffgl_Element_Cmp a b))
  | "equal", [x, y] =>
    let (a, b) := (el (← parseInt? x), el (← parseInt? y))
    pure (showBool (if ff then ffl_Element_Equal a b else ffgl_Element_Equal a b))
  | "lex", [x] =>
    let l := el (← parseInt? x)
    pure (showBool (if ff then ffl_Element_LexicographicallyLargest l else ffgl_Element_LexicographicallyLargest l))
  | "iszero", [x] =>
    let l := el (← parseInt? x)
    pure (showBool (if ff then ffl_Element_IsZero l else ffgl_Element_IsZero l))
  | "isuint64", [x] =>
    let l := el (← parseInt? x)
    pure (showBool (if ff then ffl_Element_IsUint64 l else ffgl_Element_IsUint64 l))
  | "bitlen", [x] =>
    let l := el (← parseInt? x)
    pure (toString (if ff then ffl_Element_BitLen l else ffgl_Element_BitLen l))
  | "bit", [x, i] =>
    let l := el (← parseInt? x)
    let i ← parseNat? i
    pure (toString (if ff then ffl_Element_Bit l i else ffgl_Element_Bit l i))
  | "one", [] =>
    let (o, z) := if ff then (ffl_One, (ffl_Element_SetOne (stale n)).1) else (ffgl_One, (ffgl_Element_SetOne (stale n)).1)
    pure (if o == z then val z else "!One-differs")
  | "modulus", [] => pure (toString (if ff then ffl_Modulus else ffgl_Modulus))
  | _, _ => pure "-"

def showSig (s : (Int × Int) × Int) : String := s!"{showPt s.1} {s.2}"

def genOp (op : String) (pat : String) (args : List String) : Option String := do
  match op, args with
  | "poseidon.hashex", [inp, st, n] =>
    match poseidon_HashWithStateEx (← parseIntList? inp) (← parseInt? st) (← parseInt? n) with
    | (r, none) => pure (showList toString r)
    | (_, some e) => pure (classifyErr e)
  | "mimc7.hash", [arr, key] =>
    let key ← if key = "nil" then pure none else (parseInt? key).map some
    match mimc7_Hash (← parseIntList? arr) key with
    | (r, none) => pure (toString r)
    | (_, some e) => pure (classifyErr e)
  | "mimc7.hashgeneric", [iv, arr, n] =>
    match mimc7_HashGeneric (← parseInt? iv) (← parseIntList? arr) (← parseInt? n) with
    | (r, none) => pure (toString r)
    | (_, some e) => pure (classifyErr e)
  | "mimc7.mimc7hash", [x, kk] => pure (toString (mimc7_MIMC7Hash (← parseInt? x) (← parseInt? kk)))
  | "mimc7.mimc7hashgeneric", [x, kk, n] =>
    pure (toString (mimc7_MIMC7HashGeneric (← parseInt? x) (← parseInt? kk) (← parseInt? n)))
  | "mimc7.hashbytes", [b] =>
    match mimc7_HashBytes (← parseBytes? b) with
    | (r, none) => pure (toString r)
    | (_, some e) => pure (classifyErr e)
  | "golden.hash", [inp, cap] =>
    match goldenposeidon_Hash (← parseNatList? inp) (← parseNatList? cap) with
    | (r, none) => pure (showList toString r)
    | (_, some e) => pure (classifyErr e)
  | "bj.add", [x1, y1, x2, y2] =>
    let p := babyjub_Point_Projective ((← parseInt? x1), (← parseInt? y1))
    let r := babyjub_Point_Projective ((← parseInt? x2), (← parseInt? y2))
    let recv := if pat = "zx" then p else if pat = "zy" then r else babyjub_NewPointProjective
    let (res, recv') := babyjub_PointProjective_Add recv p r
    if res != recv' then pure "!result-not-receiver" else
    pure (showPt (babyjub_PointProjective_Affine res))
  | "bj.mul", [s, x, y] =>
    pure (showPt (babyjub_Point_Mul babyjub_NewPoint (← parseInt? s) ((← parseInt? x), (← parseInt? y))).1)
  | "bj.mulconst", [s] => pure (showPt (babyjub_Point_Mul babyjub_NewPoint (← parseInt? s) I3.Go.Ext.babyjub_B8).1)
  | "bj.incurve", [x, y] => pure (showBool (babyjub_Point_InCurve ((← parseInt? x), (← parseInt? y))))
  | "bj.insubgroup", [x, y] => pure (showBool (babyjub_Point_InSubGroup ((← parseInt? x), (← parseInt? y))))
  | "bj.compress", [x, y] => pure (showBytes (babyjub_Point_Compress ((← parseInt? x), (← parseInt? y))))
  | "bj.decompress", [b] =>
    let recv0 : Int × Int := if pat = "dirty" then (12345, 67890) else (0, 1)
    match babyjub_Point_Decompress recv0 (← parseBytes? b) with
    | (p, none, recv) => pure s!"{showPt p} recv={showPt recv}"
    | (_, some e, recv) => pure s!"{classifyErr e} recv={showPt recv}"
  | "bj.pfsy", [sign, y] =>
    match babyjub_PointFromSignAndY (sign == "true") (← parseInt? y) with
    | (p, none) => pure (showPt p)
    | (_, some e) => pure (classifyErr e)
  | "bj.packsigny", [sign, y] => pure (showBytes (babyjub_PackSignY (sign == "true") (← parseInt? y)))
  | "bj.unpacksigny", [b] =>
    let r := babyjub_UnpackSignY (← parseBytes? b)
    pure s!"{showBool r.1} {r.2}"
  | "bj.coordsign", [c] => pure (showBool (babyjub_PointCoordSign (← parseInt? c)))
  | "bj.mulrecv", [s, x, y] =>
    let q := ((← parseInt? x), (← parseInt? y))
    let recv0 : Int × Int := if pat = "self" then q else if pat = "dirty" then (12345, 67890) else (0, 1)
    let r := babyjub_Point_Mul recv0 (← parseInt? s) q
    pure s!"{showPt r.1} recv={showPt r.2}"
  | "bj.set", [x, y] =>
    let c := ((← parseInt? x), (← parseInt? y))
    let r := babyjub_Point_Set (if pat = "self" then c else (0, 1)) c
    pure s!"{showPt r.1} recv={showPt r.2}"
  | "ed.sk2big", [key] => pure (toString (babyjub_SkToBigInt (← parseBytes? key)))
  | "ed.public", [key] => pure (showPt (babyjub_PrivateKey_Public (← parseBytes? key)))
  | "ed.sign", [h, key, msg] =>
    let r ← if h = "poseidon" then pure (babyjub_PrivateKey_SignPoseidon (← parseBytes? key) (← parseInt? msg))
      else if h = "mimc7" then pure (babyjub_PrivateKey_SignMimc7 (← parseBytes? key) (← parseInt? msg)) else none
    match r with
    | (s, none) => pure s!"{showSig s} {showBytes (babyjub_Signature_Compress s)}"
    | (_, some e) => pure (classifyErr e)
  | "ed.verify", [h, ax, ay, msg, rx, ry, s] =>
    let pk := ((← parseInt? ax), (← parseInt? ay))
    let sig := (((← parseInt? rx), (← parseInt? ry)), (← parseInt? s))
    let r ← if h = "poseidon" then pure (babyjub_PublicKey_VerifyPoseidon pk (← parseInt? msg) sig)
      else if h = "mimc7" then pure (babyjub_PublicKey_VerifyMimc7 pk (← parseInt? msg) sig) else none
    match r with
    | none => pure "ok"
    | some e => pure (classifyErr e)
  | "ed.verifycomp", [h, pkc, msg, sc] =>
    match babyjub_PublicKeyComp_Decompress (← parseBytes? pkc) with
    | (_, some e) => pure ("pk:" ++ classifyErr e)
    | (pk, none) =>
      match babyjub_SignatureComp_Decompress (← parseBytes? sc) with
      | (_, some e) => pure ("sig:" ++ classifyErr e)
      | (sig, none) =>
        let r ← if h = "poseidon" then pure (babyjub_PublicKey_VerifyPoseidon pk (← parseInt? msg) sig)
          else if h = "mimc7" then pure (babyjub_PublicKey_VerifyMimc7 pk (← parseInt? msg) sig) else none
        match r with
        | none => pure "ok"
        | some e => pure (classifyErr e)
  | "ed.sigcompress", [rx, ry, s] =>
    pure (showBytes (babyjub_Signature_Compress (((← parseInt? rx), (← parseInt? ry)), (← parseInt? s))))
  | "ed.sigdecompress", [b] =>
    match babyjub_Signature_Decompress ((0, 1), 0) (← parseBytes? b) with
    | (r, none, recv) => pure s!"{showSig r} recv={showSig recv}"
    | (_, some e, _) => pure (classifyErr e)
  -- value-level algorithms of the field packages (operands arrive as integers and enter through SetBigInt)
  | "ff.exp", [x, e] => pure (toString (ff_Element_Exp 0 ((← parseNat? x) % Gen.ff_modulus) (← parseInt? e)).1)
  | "ff.legendre", [x] => pure (toString (ff_Element_Legendre ((← parseNat? x) % Gen.ff_modulus)))
  | "ff.div", [x, y] => pure (toString (ff_Element_Div 0 ((← parseNat? x) % Gen.ff_modulus) ((← parseNat? y) % Gen.ff_modulus)).1)
  | "ff.batchinv", [l] => pure (showList toString (ff_BatchInvert ((← parseNatList? l).map (· % Gen.ff_modulus))))
  | "ff.sqrt", [x] =>
    match ff_Element_Sqrt 123456789 ((← parseNat? x) % Gen.ff_modulus) with
    | (_, false) => pure "DIVERGED"
    | ((none, _), true) => pure "nil"
    | ((some r, z), true) => pure (if r == z then toString r else toString r ++ "!receiver-differs")
  | "ffg.exp", [x, e] => pure (toString (ffg_Element_Exp 0 ((← parseNat? x) % Gen.ffg_modulus) (← parseInt? e)).1)
  | "ffg.legendre", [x] => pure (toString (ffg_Element_Legendre ((← parseNat? x) % Gen.ffg_modulus)))
  | "ffg.div", [x, y] => pure (toString (ffg_Element_Div 0 ((← parseNat? x) % Gen.ffg_modulus) ((← parseNat? y) % Gen.ffg_modulus)).1)
  | "ffg.batchinv", [l] => pure (showList toString (ffg_BatchInvert ((← parseNatList? l).map (· % Gen.ffg_modulus))))
  | "ffg.inverse", [x] => pure (toString (ffg_Element_Inverse 123456789 ((← parseNat? x) % Gen.ffg_modulus)).1)
  | "ffg.halve", [x] => pure (toString (ffg_Element_Halve ((← parseNat? x) % Gen.ffg_modulus)))
  | "ffg.sqrt", [x] =>
    match ffg_Element_Sqrt 123456789 ((← parseNat? x) % Gen.ffg_modulus) with
    | (_, false) => pure "DIVERGED"
    | ((none, _), true) => pure "nil"
    | ((some r, z), true) => pure (if r == z then toString r else toString r ++ "!receiver-differs")
  | "keccak.hash", slices => pure (showBytes (keccak256_Hash (← slices.mapM parseBytes?)))
  | "blake.hash", [b] => pure (showBytes (babyjub_Blake512 (← parseBytes? b)))
  -- text / SQL codecs
  | "ed.decompresssig", [t] =>
    match babyjub_DecompressSig (← parseBytes? t) with
    | (s, none) => pure (showSig s)
    | (_, some e) => pure (classifyErr e)
  | "ed.pk.marshal", [x, y] =>
    let pk := ((← parseInt? x), (← parseInt? y))
    match babyjub_PublicKey_MarshalText pk with
    | (t, none) => pure (if babyjub_PublicKey_String pk == String.ofList (I3.Go.Ext.bytesToChars t) then showBytes t else "!String-differs-from-MarshalText")
    | (_, some e) => pure (classifyErr e)
  | "ed.pk.unmarshal", [t] =>
    match babyjub_PublicKey_UnmarshalText (0, 0) (← parseBytes? t) with
    | (none, pk) => pure (showPt pk)
    | (some e, _) => pure (classifyErr e)
  | "ed.comp.unmarshal", [n, t] =>
    let n ← parseNat? n
    let r ← if n = 32 then pure (babyjub_PublicKeyComp_UnmarshalText (zeros 32) (← parseBytes? t))
      else if n = 64 then pure (babyjub_SignatureComp_UnmarshalText (zeros 64) (← parseBytes? t)) else none
    match r with
    | (none, c) => pure (showBytes c)
    | (some e, _) => pure (classifyErr e)
  | "ed.comp.marshal", [b] =>
    let b ← parseBytes? b
    let (t, s) ← if b.length = 32 then pure ((babyjub_PublicKeyComp_MarshalText b).1, babyjub_PublicKeyComp_String b)
      else if b.length = 64 then pure ((babyjub_SignatureComp_MarshalText b).1, babyjub_SignatureComp_String b) else none
    pure (if s == String.ofList (I3.Go.Ext.bytesToChars t) then showBytes t else "!String-differs-from-MarshalText")
  | "ed.comp.scan", [n, kind, payload] =>
    let n ← parseNat? n
    let src ← parseSrc? kind payload
    let r ← if n = 32 then pure (babyjub_PublicKeyComp_Scan (zeros 32) src, true)
      else if n = 64 then pure (babyjub_SignatureComp_Scan (zeros 64) src, false) else none
    match r with
    | ((none, c), is32) =>
      let v := if is32 then (babyjub_PublicKeyComp_Value c).1 else (babyjub_SignatureComp_Value c).1
      pure (if v.asBytes == (c, true) then showBytes c else "!Value-differs")
    | ((some e, _), _) => pure (classifyErr e)
  | "ed.pk.scan", [kind, payload] =>
    match babyjub_PublicKey_Scan (0, 0) (← parseSrc? kind payload) with
    | (none, pk) => pure (showPt pk)
    | (some e, _) => pure (classifyErr e)
  | "ed.sig.scan", [kind, payload] =>
    match babyjub_Signature_Scan ((0, 0), 0) (← parseSrc? kind payload) with
    | (none, s) => pure (showSig s)
    | (some e, _) => pure (classifyErr e)
  | "ed.pk.value", [x, y] =>
    match (babyjub_PublicKey_Value ((← parseInt? x), (← parseInt? y))).1.asBytes with
    | (b, true) => pure (showBytes b)
    | _ => pure "!not-bytes"
  | "ed.sig.value", [rx, ry, s] =>
    match (babyjub_Signature_Value (((← parseInt? rx), (← parseInt? ry)), (← parseInt? s))).1.asBytes with
    | (b, true) => pure (showBytes b)
    | _ => pure "!not-bytes"
  | "u.hexencode", [b] => pure (showBytes (I3.Go.strBytes (utils_HexEncode (← parseBytes? b))))
  | "u.hexdecode", [t] =>
    match utils_HexDecode (String.ofList (I3.Go.Ext.bytesToChars (← parseBytes? t))) with
    | (r, none) => pure (showBytes r)
    | (_, some e) => pure (classifyErr e)
  | "u.hexdecodeinto", [n, t] =>
    match utils_HexDecodeInto (zeros (← parseNat? n)) (← parseBytes? t) with
    | (none, dst) => pure (showBytes dst)
    | (some e, _) => pure (classifyErr e)
  | "u.lebytes", [v] => pure (showBytes (utils_BigIntLEBytes (← parseInt? v)))
  | "u.fromle", [b] => pure (toString (utils_SetBigIntFromLEBytes 0 (← parseBytes? b)).1)
  | "u.swap", [b] => pure (showBytes (utils_SwapEndianness (← parseBytes? b)))
  | "u.infield", [v] => pure (showBool (utils_CheckBigIntInField (← parseInt? v)))
  | "u.arrinfield", [l] => pure (showBool (utils_CheckBigIntArrayInField (← parseIntList? l)))
  | "u.elemarr", [l] => pure (showList toString (utils_ElementArrayToBigIntArray (utils_BigIntArrayToElementArray (← parseIntList? l))))
  | _, _ =>
    if op.startsWith "ff." then limbOp true (op.drop 3).toString args
    else if op.startsWith "ffg." then limbOp false (op.drop 4).toString args
    else pure "-"

/-- mode `ok`: what the CHECKED variants (`<name>_ok`) predict for the op — `ok` (no run-time panic) or `panics`. -/
def okOp (op : String) (pat : String) (args : List String) : Option String := do
  let b (x : Bool) : String := if x then "ok" else "panics"
  match op, args with
  | "poseidon.hashex", [inp, st, n] => pure (b (poseidon_HashWithStateEx_ok (← parseIntList? inp) (← parseInt? st) (← parseInt? n)))
  | "mimc7.hash", [arr, key] =>
    let key ← if key = "nil" then pure none else (parseInt? key).map some
    pure (b (mimc7_Hash_ok (← parseIntList? arr) key))
  | "mimc7.hashgeneric", [iv, arr, n] => pure (b (mimc7_HashGeneric_ok (← parseInt? iv) (← parseIntList? arr) (← parseInt? n)))
  | "mimc7.mimc7hash", [x, kk] => pure (b (mimc7_MIMC7Hash_ok (← parseInt? x) (← parseInt? kk)))
  | "mimc7.mimc7hashgeneric", [x, kk, n] => pure (b (mimc7_MIMC7HashGeneric_ok (← parseInt? x) (← parseInt? kk) (← parseInt? n)))
  | "mimc7.hashbytes", [bs] => pure (b (mimc7_HashBytes_ok (← parseBytes? bs)))
  | "golden.hash", [inp, cap] => pure (b (goldenposeidon_Hash_ok (← parseNatList? inp) (← parseNatList? cap)))
  | "bj.mul", [s, x, y] => pure (b (babyjub_Point_Mul_ok babyjub_NewPoint (← parseInt? s) ((← parseInt? x), (← parseInt? y))))
  | "bj.incurve", [x, y] => pure (b (babyjub_Point_InCurve_ok ((← parseInt? x), (← parseInt? y))))
  | "bj.insubgroup", [x, y] => pure (b (babyjub_Point_InSubGroup_ok ((← parseInt? x), (← parseInt? y))))
  | "bj.compress", [x, y] => pure (b (babyjub_Point_Compress_ok ((← parseInt? x), (← parseInt? y))))
  | "bj.decompress", [bs] => pure (b (babyjub_Point_Decompress_ok (0, 1) (← parseBytes? bs)))
  | "bj.pfsy", [sign, y] => pure (b (babyjub_PointFromSignAndY_ok (sign == "true") (← parseInt? y)))
  | "bj.unpacksigny", [bs] => pure (b (babyjub_UnpackSignY_ok (← parseBytes? bs)))
  | "ed.sk2big", [key] => pure (b (babyjub_SkToBigInt_ok (← parseBytes? key)))
  | "ed.public", [key] => pure (b (babyjub_PrivateKey_Public_ok (← parseBytes? key)))
  | "ed.sign", [h, key, msg] =>
    if h = "poseidon" then pure (b (babyjub_PrivateKey_SignPoseidon_ok (← parseBytes? key) (← parseInt? msg)))
    else pure (b (babyjub_PrivateKey_SignMimc7_ok (← parseBytes? key) (← parseInt? msg)))
  | "ed.verify", [h, ax, ay, msg, rx, ry, s] =>
    let pk := ((← parseInt? ax), (← parseInt? ay))
    let sig := (((← parseInt? rx), (← parseInt? ry)), (← parseInt? s))
    if h = "poseidon" then pure (b (babyjub_PublicKey_VerifyPoseidon_ok pk (← parseInt? msg) sig))
    else pure (b (babyjub_PublicKey_VerifyMimc7_ok pk (← parseInt? msg) sig))
  | "ed.sigcompress", [rx, ry, s] =>
    pure (b (babyjub_Signature_Compress_ok (((← parseInt? rx), (← parseInt? ry)), (← parseInt? s))))
  | "ed.sigdecompress", [bs] => pure (b (babyjub_Signature_Decompress_ok ((0, 1), 0) (← parseBytes? bs)))
  | "ed.decompresssig", [t] => pure (b (babyjub_DecompressSig_ok (← parseBytes? t)))
  | "ed.pk.marshal", [x, y] => pure (b (babyjub_PublicKey_MarshalText_ok ((← parseInt? x), (← parseInt? y))))
  | "ed.pk.unmarshal", [t] => pure (b (babyjub_PublicKey_UnmarshalText_ok (0, 0) (← parseBytes? t)))
  | "ed.comp.unmarshal", [n, t] =>
    let n ← parseNat? n
    if n = 32 then pure (b (babyjub_PublicKeyComp_UnmarshalText_ok (zeros 32) (← parseBytes? t)))
    else pure (b (babyjub_SignatureComp_UnmarshalText_ok (zeros 64) (← parseBytes? t)))
  | "ed.comp.scan", [n, kind, payload] =>
    let n ← parseNat? n
    let src ← parseSrc? kind payload
    if n = 32 then pure (b (babyjub_PublicKeyComp_Scan_ok (zeros 32) src)) else pure (b (babyjub_SignatureComp_Scan_ok (zeros 64) src))
  | "ed.pk.scan", [kind, payload] => pure (b (babyjub_PublicKey_Scan_ok (0, 0) (← parseSrc? kind payload)))
  | "ed.sig.scan", [kind, payload] => pure (b (babyjub_Signature_Scan_ok ((0, 0), 0) (← parseSrc? kind payload)))
  | "u.hexdecode", [t] => pure (b (utils_HexDecode_ok (String.ofList (I3.Go.Ext.bytesToChars (← parseBytes? t)))))
  | "u.hexdecodeinto", [n, t] => pure (b (utils_HexDecodeInto_ok (zeros (← parseNat? n)) (← parseBytes? t)))
  | "u.lebytes", [v] => pure (b (utils_BigIntLEBytes_ok (← parseInt? v)))
  | "u.fromle", [bs] => pure (b (utils_SetBigIntFromLEBytes_ok 0 (← parseBytes? bs)))
  | "u.arrinfield", [l] => pure (b (utils_CheckBigIntArrayInField_ok (← parseIntList? l)))
  | "keccak.hash", slices => pure (b (keccak256_Hash_ok (← slices.mapM parseBytes?)))
  | "ff.sqrt", [x] => pure (b (ff_Element_Sqrt_ok 123456789 ((← parseNat? x) % Gen.ff_modulus)))
  | "ffg.sqrt", [x] => pure (b (ffg_Element_Sqrt_ok 123456789 ((← parseNat? x) % Gen.ffg_modulus)))
  | "ff.batchinv", [l] => pure (b (ff_BatchInvert_ok ((← parseNatList? l).map (· % Gen.ff_modulus))))
  | "ff.exp", [x, e] => pure (b (ff_Element_Exp_ok 0 ((← parseNat? x) % Gen.ff_modulus) (← parseInt? e)))
  | "ff.setbigint", [v] => pure (b (ffl_Element_SetBigInt_ok (stale 4) (← parseInt? v)))
  | "ff.setbytes", [bs] => pure (b (ffl_Element_SetBytes_ok (stale 4) (← parseBytes? bs)))
  | "ff.bytes", [x] => pure (b (ffl_Element_Bytes_ok (ffEl (← parseInt? x))))
  | "ff.string", [x] => pure (b (ffl_Element_String_ok (ffEl (← parseInt? x))))
  | "ff.bit", [x, i] => pure (b (ffl_Element_Bit_ok (ffEl (← parseInt? x)) (← parseNat? i)))
  | "ffg.setbigint", [v] => pure (b (ffgl_Element_SetBigInt_ok (stale 1) (← parseInt? v)))
  | _, _ => pure "-"

/-- mode `limb`: the Poseidon and MiMC7 ops through the LIMB TWINS of packages poseidon and mimc7 (`I3.Gen.GoPoseidonLimb`, `I3.Gen.GoMimc7Limb`: the same Go
    source translated a second time with an `ff.Element` as its four Montgomery limbs, arithmetic = the T2 kernels,
    tables = `I3.Go.Ext.poseidon_c_limbs`); same result format as mode `gen`, `-` for every other op. -/
def limbTwinOp (op : String) (_pat : String) (args : List String) : Option String := do
  match op, args with
  | "poseidon.hashex", [inp, st, n] =>
    match poseidonl_HashWithStateEx (← parseIntList? inp) (← parseInt? st) (← parseInt? n) with
    | (r, none) => pure (showList toString r)
    | (_, some e) => pure (classifyErr e)
  | "poseidon.hashex", [inp, n] =>
    match poseidonl_HashEx (← parseIntList? inp) (← parseInt? n) with
    | (r, none) => pure (showList toString r)
    | (_, some e) => pure (classifyErr e)
  | "poseidon.hash", [inp] =>
    match poseidonl_Hash (← parseIntList? inp) with
    | (r, none) => pure (toString r)
    | (_, some e) => pure (classifyErr e)
  | "poseidon.hashwithstate", [inp, st] =>
    match poseidonl_HashWithState (← parseIntList? inp) (← parseInt? st) with
    | (r, none) => pure (toString r)
    | (_, some e) => pure (classifyErr e)
  -- package mimc7 through its limb twin (`I3.Gen.GoMimc7Limb`; the round constants are `mimc7l_constants`, the
  -- limb-mode translation of `generateConstantsData()`)
  | "mimc7.hash", [arr, key] =>
    let key ← if key = "nil" then pure none else (parseInt? key).map some
    match mimc7l_Hash (← parseIntList? arr) key with
    | (r, none) => pure (toString r)
    | (_, some e) => pure (classifyErr e)
  | "mimc7.hashgeneric", [iv, arr, n] =>
    match mimc7l_HashGeneric (← parseInt? iv) (← parseIntList? arr) (← parseInt? n) with
    | (r, none) => pure (toString r)
    | (_, some e) => pure (classifyErr e)
  | "mimc7.mimc7hash", [x, kk] => pure (toString (mimc7l_MIMC7Hash (← parseInt? x) (← parseInt? kk)))
  | "mimc7.mimc7hashgeneric", [x, kk, n] =>
    pure (toString (mimc7l_MIMC7HashGeneric (← parseInt? x) (← parseInt? kk) (← parseInt? n)))
  | "mimc7.hashbytes", [b] =>
    match mimc7l_HashBytes (← parseBytes? b) with
    | (r, none) => pure (toString r)
    | (_, some e) => pure (classifyErr e)
  -- package goldenposeidon through its limb twin (`I3.Gen.GoGoldenLimb`: an `ffg.Element` is its ONE Montgomery limb,
  -- arithmetic = the T2 kernels of ffg, tables = `goldenposeidonl_init`, the limb twin of `init()` itself)
  | "golden.hash", [inp, cap] =>
    match goldenposeidonl_Hash (← parseNatList? inp) (← parseNatList? cap) with
    | (r, none) => pure (showList toString r)
    | (_, some e) => pure (classifyErr e)
  -- package babyjub through its limb twins (`I3.Gen.GoBabyjubLimb`: projective addition, double-and-add, the
  -- conversion back with `ffl_inverse`, and the EdDSA entry points above them; hashes = the limb twins above)
  | "bj.add", [x1, y1, x2, y2] =>
    let p := babyjubl_Point_Projective ((← parseInt? x1), (← parseInt? y1))
    let r := babyjubl_Point_Projective ((← parseInt? x2), (← parseInt? y2))
    let recv := if _pat = "zx" then p else if _pat = "zy" then r else babyjubl_NewPointProjective
    let (res, recv') := babyjubl_PointProjective_Add recv p r
    if res != recv' then pure "!result-not-receiver" else
    pure (showPt (babyjubl_PointProjective_Affine res))
  | "bj.mul", [s, x, y] =>
    pure (showPt (babyjubl_Point_Mul babyjub_NewPoint (← parseInt? s) ((← parseInt? x), (← parseInt? y))).1)
  | "bj.mulconst", [s] => pure (showPt (babyjubl_Point_Mul babyjub_NewPoint (← parseInt? s) I3.Go.Ext.babyjub_B8).1)
  | "bj.insubgroup", [x, y] => pure (showBool (babyjubl_Point_InSubGroup ((← parseInt? x), (← parseInt? y))))
  | "bj.mulrecv", [s, x, y] =>
    let q := ((← parseInt? x), (← parseInt? y))
    let recv0 : Int × Int := if _pat = "self" then q else if _pat = "dirty" then (12345, 67890) else (0, 1)
    let r := babyjubl_Point_Mul recv0 (← parseInt? s) q
    pure s!"{showPt r.1} recv={showPt r.2}"
  | "ed.public", [key] => pure (showPt (babyjubl_PrivateKey_Public (← parseBytes? key)))
  | "ed.sign", [h, key, msg] =>
    let r ← if h = "poseidon" then pure (babyjubl_PrivateKey_SignPoseidon (← parseBytes? key) (← parseInt? msg))
      else if h = "mimc7" then pure (babyjubl_PrivateKey_SignMimc7 (← parseBytes? key) (← parseInt? msg)) else none
    match r with
    | (s, none) => pure s!"{showSig s} {showBytes (babyjub_Signature_Compress s)}"
    | (_, some e) => pure (classifyErr e)
  | "ed.verify", [h, ax, ay, msg, rx, ry, s] =>
    let pk := ((← parseInt? ax), (← parseInt? ay))
    let sig := (((← parseInt? rx), (← parseInt? ry)), (← parseInt? s))
    let r ← if h = "poseidon" then pure (babyjubl_PublicKey_VerifyPoseidon pk (← parseInt? msg) sig)
      else if h = "mimc7" then pure (babyjubl_PublicKey_VerifyMimc7 pk (← parseInt? msg) sig) else none
    match r with
    | none => pure "ok"
    | some e => pure (classifyErr e)
  | "ed.verifycomp", [h, pkc, msg, sc] =>
    match babyjub_PublicKeyComp_Decompress (← parseBytes? pkc) with
    | (_, some e) => pure ("pk:" ++ classifyErr e)
    | (pk, none) =>
      match babyjub_SignatureComp_Decompress (← parseBytes? sc) with
      | (_, some e) => pure ("sig:" ++ classifyErr e)
      | (sig, none) =>
        let r ← if h = "poseidon" then pure (babyjubl_PublicKey_VerifyPoseidon pk (← parseInt? msg) sig)
          else if h = "mimc7" then pure (babyjubl_PublicKey_VerifyMimc7 pk (← parseInt? msg) sig) else none
        match r with
        | none => pure "ok"
        | some e => pure (classifyErr e)
  | _, _ => pure "-"

def step (mode : String) (line : String) : String :=
  match (line.trimAscii.toString.splitOn " ").filter (· ≠ "") with
  | [] => "bad-op"
  | op :: args =>
    let pat := (op.splitOn "@").getD 1 ""
    let op := (op.splitOn "@").headD op
    if mode = "ok" then (okOp op pat args).getD "bad-op"
    else if mode = "limb" then (limbTwinOp op pat args).getD "bad-op"
    else (genOp op pat args).getD "bad-op"

partial def loop (mode : String) (hin hout : IO.FS.Stream) : IO Unit := do
  let line ← hin.getLine
  if line.isEmpty then return ()
  hout.putStrLn (step mode line)
  loop mode hin hout

def main (args : List String) : IO Unit := do
  if args.head? = some "initcheck" then
    -- the TRANSLATED `poseidon.init` (hex parser over the translated string table of constants.go), executed natively,
    -- must build exactly the tables that T1 read off the literals and that every C01 theorem is about
    let r := poseidon_init
    let same := r.1 == I3.Go.Ext.poseidon_c.1 && r.2.1 == I3.Go.Ext.poseidon_c.2.1 &&
      r.2.2.1 == I3.Go.Ext.poseidon_c.2.2.1 && r.2.2.2 == I3.Go.Ext.poseidon_c.2.2.2
    let n := r.1.flatten.length + r.2.1.flatten.length + (r.2.2.1.map (·.flatten)).flatten.length + (r.2.2.2.map (·.flatten)).flatten.length
    IO.println s!"poseidon.init {if same then "tables-equal" else "TABLES-DIFFER"} {if poseidon_init_ok then "no-panic" else "PANICS"} constants={n}"
    return
  if args.head? = some "index" then
    IO.println s!"translated {translatedFunctions.length} skipped {skippedFunctions.length}"
    return
  let hin ← IO.getStdin
  let hout ← IO.getStdout
  loop (args.headD "gen") hin hout
  hout.flush
